#!/usr/bin/env python3
"""Regenerates MANIFEST.json from the table below (kept valid at all times)."""
import json, sys
ALL = ["C%02d" % i for i in range(1, 21)]
# id -> (engine, technique, level text, level note, design ref)
CHECKS = {
 "C01": ("SI", "exhaustive small-scope enumeration of ordered route tables x probe paths on the real router plus explicit-state BFS over Handle/Remove/Clean histories; answer-checking oracle (independent pattern parser + Explain)",
         "Every ordered table of <=2 (quick) / <=3 (thorough) patterns from the dispatch pool, with and without the first-byte index block and under three interceptor sets, probed with every short path over the table alphabet, every instantiation over the value set and their edit-1 neighbours; plus every history of depth <=3/4 with removals. Each answer is checked for pattern liveness, handler identity, literal text, constraints and exact parameter names.",
         "Bounded table size, path length and value set; paths longer than the bound are covered only through instantiations of the value set.", "4/C01"),
 "C02": ("I", "exhaustive small-scope enumeration of add-only ordered route tables x probe paths on the real router, compared with an executable reference resolver of the documented procedure (admissible-set oracle)",
         "Same table and probe space as C01 (add-only, every registration order); the observed route and parameters must be in the set ref.Resolve admits, 404 exactly when that set is empty.",
         "The reference resolver is the trusted statement of the documented rules (DESIGN 3.6); bounded table size and path length.", "4/C02"),
 "C04": ("S", "explicit-state BFS over registration/removal histories on the real router (with and without WithTrace), four-view method-set oracle against the reference table in every state",
         "Every history over the C04 alphabet up to depth 4 (quick) / 5 (thorough) on five patterns that split one another; in every reachable state the Allow header of OPTIONS and 405 responses as sent, Node().Methods(), Node().AllowHeader(), Routes() and OPTIONS * are compared with the model, including the initial state observed in a virgin process.",
         "Bounded depth and pool; the OPTIONS/405 handlers are the harness's builder-made handlers which read AllowHeader() at request time, as README and examples/std do.", "4/C04"),
 "C05": ("SI", "explicit-state BFS over Handle/Remove/Clean histories with a hostile request alphabet in every state, plus exhaustive enumeration of all pattern strings up to a length bound through every pattern-taking entry point",
         "(a) every state of the lifecycle search (depth 3 quick / 4 thorough) probed with empty/unknown methods and hostile paths ('', '*', all byte strings over a 9-byte alphabet incl. NUL and non-UTF-8 up to length 2-3, edit-1 neighbours of witnesses, 32K/64K paths); groups behind every matcher kind with all Host strings over an 8-byte alphabet up to length 3 and malformed Accept values; (b) all pattern strings up to length 5, and length 6 where a parameter token can still be completed (quick) / all 39M up to length 7 (thorough), plus every rule text up to length 4 / 6 over a 14-byte regexp alphabet wrapped in four pattern shapes, over a 12-byte syntax alphabet through CheckSyntax, URL, Router.URL, Handle on fresh and populated routers, then served.",
         "Bounded string lengths and alphabets chosen to contain every byte the parser and matcher distinguish; the harness handler never panics by itself.", "4/C05"),
 "C06": ("C", "stateless DFS over thread schedules of the real router under a controlled scheduler (points at lock announce/acquire/release, pool get/put, handler entry/exit, operation boundaries), iterative preemption bounding, race detector as per-execution oracle plus brute-force linearizability against sequential re-execution",
         "All 2- and 3-thread scenarios over the C06 writer/reader alphabet (about 330 quick) on a WithLock(true) router; every interleaving up to 2 preemptions (quick) / 3-4 (thorough) is executed under -race with a hand-off the detector cannot see, so conflicting accesses that mux does not order are reported for that schedule; no panic, no nil handler, no deadlock (writer preference modelled), every result vector linearizable and the final Routes() equal to that linearization's.",
         "Preemption-bounded; 2-3 threads x 1-2 operations; weak-memory effects of racy code are not explored (a race is itself the violation); Router.Use is outside the property's list and the alphabet; the Allow header read by user handlers at request time is not part of the compared response.", "4/C06"),
 "C07": ("C", "stateless DFS over thread schedules under the controlled scheduler with the race detector as per-execution oracle (distinct instances in parallel; concurrent requests on a quiescent router with a LIFO context pool and requests parked inside handlers), a virgin-process pass for lazily initialised process-wide state, and exhaustive enumeration of other-instance histories for history independence",
         "(a) all 1176 unordered pairs of 48 instance programs (Router / +WithLock / +WithTrace / Hosts / Group, each created inside its thread) as two threads, every interleaving up to 2 (quick) / 3 (thorough) preemptions under -race, results equal to the program run alone; the same pairs once more, each as the first activity of a brand-new process; (b) every history of depth <=2/3 of other-instance activity (never merged), after which brand-new instances must answer exactly as in a virgin process; (c) 2-3 threads x 1-2 requests on an immutable router with and without WithLock, up to 3/4 preemptions: per request own parameters, node and router name at handler entry and exit, pool contexts empty.",
         "Preemption-bounded, 2-3 threads; the sync.Pool is replaced by a deterministic LIFO free list (the adversarial choice: maximal reuse); weak-memory effects not explored.", "4/C07"),
 "C08": ("SI", "exhaustive enumeration of handler write programs run under GET and HEAD on a wire-semantics ResponseWriter, plus explicit-state BFS over add/remove histories on one pattern",
         "Every handler program of length <=4 (quick, 7.4k) / <=5 (thorough, 66k) over WriteHeader/Write(0,1,3)/Set/Del steps: same status, same headers as sent except Content-Length, zero body bytes, Content-Length = bytes written when the handler sends no header itself. Every history of depth <=4/6 on a pattern with a splitting sibling, with and without WithTrace: HEAD iff GET with GET's handler, OPTIONS iff live, reserved/unknown registrations rejected without effect.",
         "The wire.Writer models net/http only as far as 'when is the header block sent'.", "4/C08"),
 "C09": ("S", "explicit-state BFS over programs of configuration calls (Use / Prefix / nested Prefix / Resource / Handle with middlewares / Remove / Clean; Group.Use/New/Add) on the real router, onion-order reference model on every state",
         "Every program up to depth 5 (quick) / 6 (thorough), with and without WithTrace, and group programs: for each handler kind of each live pattern and for 404, TRACE, OPTIONS *, the '*' 405 and the group not-found, the wrapper chain seen at request time equals the documented order; each wrapper stems from exactly one factory call with the right (method, pattern, router); each step causes exactly the predicted number of factory invocations.",
         "Bounded depth; fixed middleware names and facade objects (P1=/p[D], P2=P1/q[E,F], R=P1/r/{id}[G]).", "4/C09"),
 "C10": ("I", "exhaustive small-scope enumeration: patterns x all params maps over a value set x every URL entry point and mode x route-table situations, against an independent tokenizer/instantiator; round trip over every dispatch observed on all tables of <=2 patterns",
         "Every pattern of the dispatch pool under three interceptor sets plus one malformed pattern per documented error class; every params map over the pattern's names plus an extra key with each key absent or bound to one of 10 values (1.15M URL calls): mux.URL, Router.URL strict/non-strict with three URL-domain spellings, Prefix.URL at three cuts, Resource.URL; strict mode where the pattern is live, removed again, only structural, or absent. Every (path, route, params) produced by dispatch is fed back through URL strict and non-strict.",
         "Finite value set and pattern pool; the reference tokenizer is the trusted statement of the pattern syntax.", "4/C10"),
 "C11": ("I", "exhaustive enumeration of the full product CORS configuration x request against a reference decision table (safety clauses)",
         "All 240 configurations (+ invalid ones, which must be rejected) x 6720 requests (method x path x Origin x Access-Control-Request-Method x Access-Control-Request-Headers spellings) = 1.29M dispatches; every response header block as sent is checked: Allow-Origin only '*' when configured or the verbatim listed Origin, credentials only with an echoed listed origin, none on 404/405, unserved-method preflights, or preflights with a disallowed header (case-insensitive).",
         "Finite classes of Origin / header spellings; one route table (/r GET, /w GET+POST).", "4/C11-C12"),
 "C12": ("I", "exhaustive enumeration of the full product CORS configuration x request against a reference decision table (completeness clauses)",
         "Same product as C11: for allowed origins on served methods the grant headers, credentials and expose list must be exactly as configured; successful preflights carry Allow-Methods = the route's Allow set, the configured Allow-Headers and Max-Age; non-preflights carry none of them; Vary names Origin / Access-Control-Request-Method / -Headers as the property prescribes.",
         "As C11; requests whose Access-Control-Request-Headers consists only of empty list items are outside the completeness oracle (ambiguous).", "4/C11-C12"),
 "C13": ("I", "exhaustive enumeration of group configurations (ordered router lists x matcher alphabet incl. And/Or composites x New/Add/Use/Remove variants) x requests, against pure reference matchers and a stand-alone table model of the winning router",
         "Every ordered list of <=2 routers over 12 matchers (plus triples with a composite among the first two; thorough: all triples), four construction variants, Remove of each router, duplicate-name attempts; x 288 requests (4 hosts x 6 paths x 4 Accept values x 3 methods): winner = first router whose reference matcher accepts the request as originally received; handler, router name, URL.Path seen by the handler, merged parameters and middleware trail must match; no winner = group not-found.",
         "Finite matcher alphabet and request classes; each router holds /x and /{p}.", "4/C13"),
 "C14": ("S", "explicit-state BFS over Add/Delete/RegisterInterceptor histories of a real Hosts value, reference resolver over the live domain patterns on every state",
         "Every history up to depth 4 (quick) / 5 (thorough) over 12 domains (six literals to cross the index threshold, parameterised and interceptor domains, mixed case); ~760 host probes per state (witness in 8 spellings incl. ports and brackets, edit-1 neighbours): accept iff the normalised host resolves, parameters exactly the pattern's, Delete leaves other answers unchanged.",
         "Bounded depth and pool; normalisation rule transcribed from the property statement.", "4/C14"),
 "C15": ("I", "exhaustive small-scope enumeration of matcher configurations x all paths / Accept values against reference matchers",
         "Path-version: every ordered list of <=2 (quick) / 3 (thorough) of 7 version spellings x 2 param names x all 97k paths over {/ v 1 2 x} up to length 7 (9.6M matches quick); header-version: 3 keys x 8 version lists x 2 params x 5 media types x 144 parameter-pair spellings plus malformed values. Accept/reject, rewritten URL.Path, recorded parameter, untouched request and parameters on rejection.",
         "Finite alphabets; mime.ParseMediaType is the stated parser and shared with the reference.", "4/C15"),
 "C16": ("S", "exhaustive enumeration of fault sequences (panic site x panic value, interleaved with normal and nested requests) on long-lived Router and Group instances, on the deterministic LIFO context pool",
         "10 instance kinds (Router / Group x none / WithRecovery / WithStatusRecovery; New inheriting and overriding; Add with/without own option) x all sequences of <=2 events with 7 panic values and <=3 events with 2 values (thorough: 3 and 4) over 18 panic sites + 3 normal requests, one of which issues a second request from inside its handler: containment, exactly-once delivery of the identical value to the function in force, continued service with own parameters at handler entry and exit, pass-through without the option.",
         "Runs on the overlay build so that the context pool is a drainable LIFO free list (each sequence starts from an empty pool).", "4/C16"),
 "C18": ("SI", "explicit-state BFS over registration histories (with Use) with and without WithTrace, TRACE probes and Allow views in every state; exhaustive enumeration of request shapes for the Trace helper on a wire-semantics writer",
         "Every history over the C04 alphabet plus Use(A) up to depth 4 (quick) / 5 (thorough): with the option TRACE on any path (routes, non-routes, '*', '') is answered by the configured handler wrapped only in the Use middlewares, TRACE is in every Allow view and cannot be registered; without it TRACE is registrable and otherwise 404/405. Helper: all pairs of strings over {a < > & \" ' NUL 0xc3}^<=2 in path, header, method and body, body flag both ways: 200, Content-Type as sent, body = html-escaped dump.",
         "The TRACE handler used in the histories is the bundled helper; httputil.DumpRequest + html.EscapeString is the stated reference.", "4/C18"),
 "C19": ("S", "explicit-state BFS over programs of facade calls executed twice - as written through Prefix/nested Prefix/Resource objects and desugared to plain Router calls - with a full differential oracle after every step",
         "Every program up to depth 4 (quick) / 6 (thorough) over 35 facade calls through 10 facade objects (empty prefix, prefix ending inside a parameter token, prefix without leading slash, nested prefixes, resources under prefixes), with and without WithTrace: identical Routes(), 105 dispatch observations incl. full middleware chains and Allow headers, URL results and panics.",
         "The translator (pattern and middleware-list concatenation, Prefix.Clean = textual prefix removal) is the trusted statement of 'shorthand'.", "4/C19"),
 "C20": ("S", "explicit-state BFS over Set/Delete/Reset/Destroy+NewContext histories of a real Context on the LIFO pool shim against a map model and strconv; plus a no-dedup pass",
         "Every history up to depth 3 (quick) / 4 (thorough) over 3 keys x 24 edge-case values; after every step ~90 accessor results on present and absent keys: Count/Get/Exists/String/Range vs the map, Int/Uint/Bool/Float vs strconv in value and error text, not-exists error identity, every Must* with two defaults, emptiness of a context re-obtained from the pool after being dirtied.",
         "Finite value set; runs on the overlay build for the deterministic pool.", "4/C20"),
 "C17": ("S", "explicit-state BFS over registration histories; in every state every member of a rejected-call set is executed on a replayed copy and the full observation vector is compared before/after; positive clauses by exhaustive enumeration of ordered pattern pairs",
         "Every state over the C04 alphabet up to depth 2 (quick) / 3 (thorough), with and without WithTrace, x several hundred rejected Handle calls (duplicates, bad method lists in every position, malformed patterns sharing prefixes, rename-only patterns): must panic with an error value and leave Routes(), all dispatch outcomes, Allow headers and OPTIONS * unchanged. All ordered pairs over the dispatch pool and its renamed / '-'-flipped variants decide always-rejected and never-falsely-ambiguous.",
         "Bounded depth and pools; internal restructuring without observable effect is reported as a note only, as the property is about observable state.", "4/C17"),
 "C03": ("S", "explicit-state BFS over Handle/Remove/Clean histories on the real router, dedup on a reflective dump of its private state, reference table + resolver as oracle on every state",
         "Every history over the C03 alphabet up to the depth bound (quick 3, thorough 5), from every reachable deduplicated implementation state, probed with every method on witness and first-byte-variant paths; Routes(), dispatch, frame condition and no-panic are checked in every state against an independent table model.",
         "Bounded depth and finite pattern pool; the state merge relies on the reflective dump covering all router state (field-generic, so new fields are included automatically).", "4/C03"),
}
PENDING = {}
def main():
    checks = []
    for pid in ALL:
        if pid not in CHECKS: continue
        eng, tech, text, note, ref = CHECKS[pid]
        checks.append({
            "property_id": pid,
            "quick_cmd": "./verif %s quick" % pid,
            "thorough_cmd": "./verif %s thorough" % pid,
            "evidence_file": "/verif/evidence/%s.json" % pid,
            "replay_cmd_template": "./verif replay {path}",
            "engine": "engine-" + eng,
            "level_claimed": {"category": "model_checking", "text": text, "design_ref": "DESIGN.md section " + ref},
            "level_note": note,
            "technique": tech,
        })
    na = [{"property_id": p, "reason": PENDING.get(p, "check not built yet in this session (design in DESIGN.md section 4); no claim is made until the explorer for it exists")} for p in ALL if p not in CHECKS]
    m = {
        "version": 1,
        "setup_cmd": "./verif setup",
        "hooks": {
            "guard": "verif",
            "enable": "no source hooks are committed in /repo: instrumentation (sync shim for the controlled scheduler) is injected at build time with `go build -overlay` + `-tags verif` by ./verif; sequential checks build /repo unmodified through a replace directive",
            "baseline_off_cmd": "cd /repo && go test -vet=off -count=1 ./...",
            "source_commits": [],
            "add_only": True,
        },
        "engines": [
            {"name": "engine-S", "path": "harness/explore/bfs.go", "serves_properties": [p for p in ALL if p in CHECKS and CHECKS[p][0] in ("S", "SI")], "kind_free_text": "explicit-state breadth-first search over operation histories executed on the real code (fresh instance + replay per state), global dedup on a reflective canonical dump of private state, reference model as oracle"},
            {"name": "engine-I", "path": "harness/explore/enum.go", "serves_properties": [p for p in ALL if p in CHECKS and CHECKS[p][0] in ("I", "SI")], "kind_free_text": "exhaustive small-scope enumeration of inputs (all strings over a per-state alphabet up to a length, derived witnesses and their edit-1 neighbours, full products of configuration x request classes)"},
            {"name": "engine-C", "path": "harness/explore/sched.go", "serves_properties": [p for p in ALL if p in CHECKS and CHECKS[p][0] == "C"], "kind_free_text": "stateless DFS over thread schedules with iterative preemption bounding under a cooperative scheduler that is invisible to the race detector; per-execution oracle = race-report delta + linearizability against the reference model"},
        ],
        "checks": checks,
        "not_applicable": na,
        "notes": "All checks rebuild the harness against /repo's working tree (replace directive / overlay). Exit 0 = held on everything explored, 1 = VIOLATION line, 2 = harness failure (never reported as a violation). known_findings.txt lists recorded and repaired defects.",
    }
    json.dump(m, open("MANIFEST.json", "w"), indent=1)
    print("MANIFEST.json:", len(checks), "checks,", len(na), "not_applicable")
main()
