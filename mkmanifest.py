#!/usr/bin/env python3
"""Regenerates MANIFEST.json from the table below (kept valid at all times)."""
import json, sys
ALL = ["C%02d" % i for i in range(1, 21)]
# id -> (engine, technique, level text, level note, design ref)
CHECKS = {
 "C01": ("SI", "exhaustive small-scope enumeration of ordered route tables x probe paths on the real router plus explicit-state BFS over Handle/Remove/Clean histories; answer-checking oracle (independent pattern parser + Explain)",
         "Every ordered table of <=2 (quick) / <=3 (thorough) patterns from the dispatch pool, with and without the first-byte index block and under three interceptor sets, probed with every short path over the table alphabet, every instantiation over the value set and their edit-1 neighbours; plus every history of depth <=3/4 with removals. Each answer is checked for pattern liveness, handler identity, literal text, constraints and exact parameter names. The pool includes lazy, greedy and ordered-alternation rules, rules whose values contain the following literal, multi-byte literals, a '}' in literal text, a slash-less parameter pattern; probes that merely start with '*', non-ASCII digits/letters and a line feed as values.",
         "Bounded table size, path length and value set; paths longer than the bound are covered only through instantiations of the value set.", "4/C01"),
 "C02": ("I", "exhaustive small-scope enumeration of add-only ordered route tables x probe paths on the real router, compared with an executable reference resolver of the documented procedure (admissible-set oracle)",
         "Same table and probe space as C01 (add-only, every registration order); the observed route and parameters must be in the set ref.Resolve admits, 404 exactly when that set is empty.",
         "The reference resolver is the trusted statement of the documented rules (DESIGN 3.6); bounded table size and path length.", "4/C02"),
 "C04": ("S", "explicit-state BFS over registration/removal histories on the real router (with and without WithTrace), four-view method-set oracle against the reference table in every state",
         "Every history over the C04 alphabet up to depth 4 (quick) / 5 (thorough) on five patterns that split one another; in every reachable state the Allow header of OPTIONS and 405 responses as sent, Node().Methods(), Node().AllowHeader(), Routes() and OPTIONS * are compared with the model, including the initial state observed in a virgin process.",
         "Bounded depth and pool; the OPTIONS/405 handlers are the harness's builder-made handlers which read AllowHeader() at request time, as README and examples/std do.", "4/C04"),
 "C05": ("SI", "explicit-state BFS over Handle/Remove/Clean histories with a hostile request alphabet in every state, plus exhaustive enumeration of all pattern strings up to a length bound through every pattern-taking entry point",
         "(a) every state of the lifecycle search (depth 3 quick / 4 thorough) probed with empty/unknown methods and hostile paths ('', '*', all byte strings over a 9-byte alphabet incl. NUL and non-UTF-8 up to length 2-3, edit-1 neighbours of witnesses, 32K/64K paths); groups behind every matcher kind with all Host strings over an 8-byte alphabet up to length 3 and malformed Accept values; (b) all pattern strings up to length 5, and length 6 where a parameter token can still be completed (quick) / all 39M up to length 7 (thorough), plus every rule text up to length 4 / 6 over a 14-byte regexp alphabet wrapped in four pattern shapes, over a 12-byte syntax alphabet through CheckSyntax, URL, Router.URL, Handle on fresh and populated routers, then served.",
         "Bounded string lengths and alphabets chosen to contain every byte the parser and matcher distinguish; the harness handler never panics by itself.", "4/C05"),
 "C06": ("C", "stateless DFS over thread schedules of the real router under a controlled scheduler (points at lock announce/acquire/release, pool get/put, handler entry/exit, operation boundaries), iterative preemption bounding, race detector as per-execution oracle plus brute-force linearizability against sequential re-execution",
         "All 2- and 3-thread scenarios over the C06 writer/reader alphabet (about 340 quick; writers include Prefix.Handle by two goroutines sharing one caller-owned middleware slice, whose spare capacity must stay untouched) on a WithLock(true) router; every interleaving up to 2 preemptions (quick) / 3-4 (thorough) is executed under -race with a hand-off the detector cannot see, so conflicting accesses that mux does not order are reported for that schedule; no panic, no nil handler, no deadlock (writer preference modelled), every result vector linearizable and the final Routes() equal to that linearization's.",
         "Preemption-bounded; 2-3 threads x 1-2 operations; weak-memory effects of racy code are not explored (a race is itself the violation); Router.Use is outside the property's list and the alphabet; the Allow header read by user handlers at request time is not part of the compared response.", "4/C06"),
 "C07": ("C", "stateless DFS over thread schedules under the controlled scheduler with the race detector as per-execution oracle (distinct instances in parallel; concurrent requests on a quiescent router with a LIFO context pool and requests parked inside handlers), a virgin-process pass for lazily initialised process-wide state, and exhaustive enumeration of other-instance histories for history independence",
         "(a) all unordered pairs of 61 instance programs (Router / +WithLock / +WithTrace / shared Option values / Hosts / Group / two Groups built from one option slice with spare capacity, each created inside its thread) as two threads, every interleaving up to 2 (quick) / 3 (thorough) preemptions under -race, results equal to the program run alone; the same pairs once more, each as the first activity of a brand-new process; (b) every history of depth <=2/3 of other-instance activity (never merged), after which brand-new instances must answer exactly as in a virgin process; (c) 2-3 threads x 1-2 requests on an immutable router with and without WithLock, up to 3/4 preemptions: per request own parameters, node and router name at handler entry and exit, pool contexts empty.",
         "Preemption-bounded, 2-3 threads; the sync.Pool is replaced by a deterministic LIFO free list (the adversarial choice: maximal reuse); weak-memory effects not explored.", "4/C07"),
 "C08": ("SI", "exhaustive enumeration of handler write programs run under GET and HEAD on a wire-semantics ResponseWriter, plus explicit-state BFS over add/remove histories on one pattern",
         "Every handler program of length <=4 (quick, 7.4k) / <=5 (thorough, 66k) over WriteHeader/Write(0,1,3)/Set/Del steps: same status, same headers as sent except Content-Length, zero body bytes, Content-Length = bytes written when the handler sends no header itself. Every history of depth <=4/6 on a pattern with a splitting sibling, with and without WithTrace: HEAD iff GET with GET's handler, OPTIONS iff live, reserved/unknown registrations rejected without effect. Program steps also include an informational 103, an in-place edit of a header's value slice, a header set through the map obtained before the first write, and io.Copy; programs that panic under a recovery option; HEAD through a Group; an unrelated HEAD request before every trial.",
         "The wire.Writer models net/http only as far as 'when is the header block sent'.", "4/C08"),
 "C09": ("S", "explicit-state BFS over programs of configuration calls (Use / Prefix / nested Prefix / Resource / Handle with middlewares / Remove / Clean; Group.Use/New/Add) on the real router, onion-order reference model on every state",
         "Every program up to depth 5 (quick) / 6 (thorough), with and without WithTrace, and group programs: for each handler kind of each live pattern and for 404, TRACE, OPTIONS *, the '*' 405 and the group not-found, the wrapper chain seen at request time equals the documented order; each wrapper stems from exactly one factory call with the right (method, pattern, router); each step causes exactly the predicted number of factory invocations. Registrations go through the shorthand entry points (Any/Get/Post of Router, Prefix, Resource) with prefixes of one caller-owned middleware list; Router.Clean is in the alphabet.",
         "Bounded depth; fixed middleware names and facade objects (P1=/p[D], P2=P1/q[E,F], R=P1/r/{id}[G]).", "4/C09"),
 "C10": ("I", "exhaustive small-scope enumeration: patterns x all params maps over a value set x every URL entry point and mode x route-table situations, against an independent tokenizer/instantiator; round trip over every dispatch observed on all tables of <=2 patterns",
         "Every pattern of the dispatch pool under three interceptor sets plus one malformed pattern per documented error class; every params map over the pattern's names plus an extra key with each key absent or bound to one of 10 values (1.15M URL calls): mux.URL, Router.URL strict/non-strict with three URL-domain spellings, Prefix.URL at three cuts, Resource.URL; strict mode where the pattern is live, removed again, only structural, or absent. Every (path, route, params) produced by dispatch is fed back through URL strict and non-strict. Values derived from the pattern (accepted value + following literal, token texts of its own parameters); routers on which URL building precedes the table change; facade differential with nil/empty params, with and without a URL domain.",
         "Finite value set and pattern pool; the reference tokenizer is the trusted statement of the pattern syntax.", "4/C10"),
 "C11": ("I", "exhaustive enumeration of the full product CORS configuration x request against a reference decision table (safety clauses)",
         "Several hundred configurations (origins x allow-header lists incl. '*' next to names x exposed x max-age x credentials, composed and inherited options, two route tables; invalid ones must be rejected) x every request (8 methods incl. '' and BOGUS x 5 paths incl. a POST-only route and '*' x 8 Origin spellings x 8 Access-Control-Request-Method values x derived Access-Control-Request-Headers spellings) = about 9.8M dispatches (quick); every response header block as sent is checked: Allow-Origin only '*' when configured or the verbatim listed Origin, credentials only with an echoed listed origin, none on 404/405, unserved-method preflights, or preflights with a disallowed header (case-insensitive).",
         "Finite classes of Origin / header spellings; route table /r GET, /w GET+POST, /p POST, plain and reached through a history with WithTrace.", "4/C11-C12"),
 "C12": ("I", "exhaustive enumeration of the full product CORS configuration x request against a reference decision table (completeness clauses)",
         "Same product as C11: for allowed origins on served methods the grant headers, credentials and expose list must be exactly as configured; successful preflights carry Allow-Methods = the route's Allow set, the configured Allow-Headers and Max-Age; non-preflights carry none of them; Vary names Origin / Access-Control-Request-Method / -Headers as the property prescribes. The caller-owned configuration lists (unsorted, with duplicates, views of longer lists) must read the same afterwards; requested-header lists spread over several field lines; a route whose handler panics under a recovery option; preflights between the steps of the history table.",
         "As C11; requests whose Access-Control-Request-Headers consists only of empty list items are outside the completeness oracle (ambiguous).", "4/C11-C12"),
 "C13": ("I", "exhaustive enumeration of group configurations (ordered router lists x matcher alphabet incl. And/Or composites x New/Add/Use/Remove variants) x requests, against pure reference matchers and a stand-alone table model of the winning router",
         "Every ordered list of <=2 routers over 12 matchers (plus triples with a composite among the first two; thorough: all triples), four construction variants, Remove of each router, duplicate-name attempts; x 288 requests (4 hosts x 6 paths x 4 Accept values x 3 methods): winner = first router whose reference matcher accepts the request as originally received; handler, router name, URL.Path seen by the handler, merged parameters and middleware trail must match; no winner = group not-found. Each GET is also sent percent-encoded: URL.RawPath must survive every rejection. Matchers include empty and one-member And/Or and a user-written matcher that writes a parameter and rejects; routes whose parameter is named like a matcher's; TRACE through the group; a removed router added again under another matcher; a path no router has a route for.",
         "Finite matcher alphabet and request classes; each router holds /x and /{p}.", "4/C13"),
 "C14": ("S", "explicit-state BFS over Add/Delete/RegisterInterceptor histories of a real Hosts value, reference resolver over the live domain patterns on every state",
         "Every history up to depth 4 (quick) / 5 (thorough) over 12 domains (six literals to cross the index threshold, parameterised and interceptor domains, mixed case); ~760 host probes per state (witness in 8 spellings incl. ports and brackets, edit-1 neighbours): accept iff the normalised host resolves, parameters exactly the pattern's, Delete leaves other answers unchanged. Every probe is repeated with a decoy authority in URL.Host: the answer goes by the Host header only. Second family: nested wildcard domains, non-ASCII names, names and rules with capitals, two domains sharing a rule that RegisterInterceptor turns into an interceptor; hosts with a lone bracket, partial capitals, KELVIN SIGN with a port.",
         "Bounded depth and pool; normalisation rule transcribed from the property statement.", "4/C14"),
 "C15": ("I", "exhaustive small-scope enumeration of matcher configurations x all paths / Accept values against reference matchers",
         "Path-version: every ordered list of <=2 (quick) / 3 (thorough) of 7 version spellings x 2 param names x all 97k paths over {/ v 1 2 x} up to length 7 (9.6M matches quick); header-version: 3 keys x 8 version lists x 2 params x 5 media types x 144 parameter-pair spellings plus malformed values. Accept/reject, rewritten URL.Path, recorded parameter, untouched request and parameters on rejection. Accept values with commas and quoted commas; requests arrive with an encoded tail (RawPath untouched on rejection). The version list is caller-owned and must read the same afterwards; an upper-case key; Accept on two field lines; a differently configured decoy matcher sees every value first.",
         "Finite alphabets; mime.ParseMediaType is the stated parser and shared with the reference.", "4/C15"),
 "C16": ("S", "exhaustive enumeration of fault sequences (panic site x panic value, interleaved with normal and nested requests) on long-lived Router and Group instances, on the deterministic LIFO context pool",
         "10 instance kinds (Router / Group x none / WithRecovery / WithStatusRecovery; New inheriting and overriding; Add with/without own option) x all sequences of <=2 events with 7 panic values and <=3 events with 2 values (thorough: 3 and 4) over 18 panic sites + 3 normal requests, one of which issues a second request from inside its handler: containment, exactly-once delivery of the identical value to the function in force, continued service with own parameters at handler entry and exit, pass-through without the option. Further kinds: WithRecovery(f) then WithRecovery(nil), Group.New(.., WithRecovery(nil)), sibling routers with options of their own, the built-in log/slog/write reporting options (report starts with the panic value as fmt prints it), +lock kinds with a panicking interceptor; a request whose context is already cancelled.",
         "Runs on the overlay build so that the context pool is a drainable LIFO free list (each sequence starts from an empty pool).", "4/C16"),
 "C18": ("SI", "explicit-state BFS over registration histories (with Use) with and without WithTrace, TRACE probes and Allow views in every state; exhaustive enumeration of request shapes for the Trace helper on a wire-semantics writer",
         "Every history over the C04 alphabet plus Use(A) up to depth 4 (quick) / 5 (thorough): with the option TRACE on any path (routes, non-routes, '*', '') is answered by the configured handler wrapped only in the Use middlewares, TRACE is in every Allow view and cannot be registered; without it TRACE is registrable and otherwise 404/405. Helper: all pairs of strings over {a < > & \" ' NUL 0xc3}^<=2 in path, header, method and body, body flag both ways: 200, Content-Type as sent, body = html-escaped dump. Seven ways a router comes by its TRACE handler (repeated option, inherited from NewGroup, overridden in Group.New, Added routers) through the group and directly; a sent Content-Length must equal the body length.",
         "The TRACE handler used in the histories is the bundled helper; httputil.DumpRequest + html.EscapeString is the stated reference.", "4/C18"),
 "C19": ("S", "explicit-state BFS over programs of facade calls executed twice - as written through Prefix/nested Prefix/Resource objects and desugared to plain Router calls - with a full differential oracle after every step",
         "Every program up to depth 4 (quick) / 6 (thorough) over 35 facade calls through 10 facade objects (empty prefix, prefix ending inside a parameter token, prefix without leading slash, nested prefixes, resources under prefixes), with and without WithTrace: identical Routes(), 105 dispatch observations incl. full middleware chains and Allow headers, URL results and panics. Facade objects live as long as the router and Router.Use is in the alphabet; a second family (depth+1) covers two overlapping parameter siblings with Prefix.Clean below either.",
         "The translator (pattern and middleware-list concatenation, Prefix.Clean = textual prefix removal) is the trusted statement of 'shorthand'.", "4/C19"),
 "C20": ("S", "explicit-state BFS over Set/Delete/Reset/Destroy+NewContext histories of a real Context on the LIFO pool shim against a map model and strconv; plus a no-dedup pass",
         "Every history up to depth 3 (quick) / 4 (thorough) over 3 keys x 24 edge-case values; after every step ~90 accessor results on present and absent keys: Count/Get/Exists/String/Range vs the map, Int/Uint/Bool/Float vs strconv in value and error text, not-exists error identity, every Must* with two defaults, emptiness of a context re-obtained from the pool after being dirtied.",
         "Finite value set; runs on the overlay build for the deterministic pool.", "4/C20"),
 "C17": ("S", "explicit-state BFS over registration histories; in every state every member of a rejected-call set is executed on a replayed copy and the full observation vector is compared before/after; positive clauses by exhaustive enumeration of ordered pattern pairs",
         "Every state over the C04 alphabet up to depth 2 (quick) / 3 (thorough), with and without WithTrace, x several hundred rejected Handle calls (duplicates, bad method lists in every position, malformed patterns sharing prefixes, rename-only patterns): must panic with an error value and leave Routes(), all dispatch outcomes, Allow headers and OPTIONS * unchanged. All ordered pairs over the dispatch pool and its renamed / '-'-flipped variants decide always-rejected and never-falsely-ambiguous. A second history family (depth+1, interceptors) over regexp and interceptor parameters whose literal suffix is split and re-joined; in every state valid calls must also be accepted.",
         "Bounded depth and pools; internal restructuring without observable effect is reported as a note only, as the property is about observable state.", "4/C17"),
 "C03": ("S", "explicit-state BFS over Handle/Remove/Clean histories on the real router, dedup on a reflective dump of its private state, reference table + resolver as oracle on every state",
         "Every history over the C03 alphabet up to the depth bound (quick 3, thorough 5), from every reachable deduplicated implementation state, probed with every method on witness and first-byte-variant paths; Routes(), dispatch, frame condition and no-panic are checked in every state against an independent table model. A second family (one level deeper) covers routes that split the literal text after one parameter and removals that must leave the tree answering like a fresh one.",
         "Bounded depth and finite pattern pool; the state merge relies on the reflective dump covering all router state (field-generic, so new fields are included automatically).", "4/C03"),
}
PENDING = {}
# additions of the sixth and seventh seeding rounds (appended to the level text)
EXTRA = {
 "C01": "The pool also holds a regexp and an interceptor sibling that accept the literal text left over from a split parameter node, and a 20-digit value.",
 "C03": "Further families: equally ranked parameter siblings whose matches overlap, one of them restructured by removals (frame law for removals); removal lists with reserved method names in front of real ones.",
 "C04": "Removal lists with reserved names in front of / between real methods; the pattern that answers a path must be the same for OPTIONS, registered, extension (PROPFIND), lower-case and unknown methods.",
 "C05": "Every enumerated pattern string is also given to Hosts.Add / Match / Delete.",
 "C06": "The set-up has a regexp route nobody has matched yet; reader pairs include its first two uses and two strict URL calls for different patterns.",
 "C07": "(c) also on a router with CORS (concurrent preflights with different requested-header lists) - the response's CORS headers are part of the per-request result.",
 "C08": "Programs also contain an explicit WriteHeader(200) and a guarded Flush (http.Flusher or ResponseController; server writer with and without Flush: for the latter the HEAD-only clauses are checked); each program also runs with the route's router mounted as the GET handler of another router.",
 "C10": "Values and literal text with '%', parameter names starting with two '-', a URL domain with several trailing slashes.",
 "C11": "Requests with two Origin field lines; horizontal tabs around requested-header list members.",
 "C12": "OPTIONS * with Access-Control-Request-Method counts as the served non-preflight request it is; every OPTIONS request to a live route must reach its automatic handler.",
 "C13": "The matcher alphabet also has the AndMatcherFunc / OrMatcherFunc constructors and Or(And(PV1,Hosts a),Hosts b).",
 "C14": "Every host is also probed with a second request method (TRACE, PROPFIND, empty, POST, OPTIONS in turn): the answer must not change; pools with equally ranked wildcard domains that match the same host.",
 "C16": "Panic values include a typed-nil error whose Error method faults.",
 "C17": "Every rejected call is repeated at once and must be rejected again; further families: routes that differ in the parameter name with calls that rename one to the other's name, and the empty-rule spelling {x:} below split nodes.",
 "C18": "A router whose handler type is int with WithTrace(0): the zero value is a handler like any other.",
 "C19": "Further families: equally ranked parameter siblings next to a prefix with two routes (Prefix.Clean against removing them one by one); Resource / Prefix.Resource objects on a router with interceptors whose patterns only that router's interceptor set can read (creating a facade object counts as a call).",
 "C20": "Values include text that looks percent-escaped; the zero-value Context is among the operations.",
 "C09": "A prefix three levels deep (P1 -> P2 -> P3) is among the facades.",
 "C15": "Version texts with capitals; 11-entry version lists with a version that is a prefix of another.",
}
EXTRA["C05"] += " Router/Prefix/Resource.URL on a router with a URL domain for every pattern and the empty one; interceptors registered under names that are no regular expressions."
EXTRA["C06"] += " The Prefix-registering writers share one Prefix object; OPTIONS * and GET * are among the readers."
EXTRA["C08"] += " A write whose result is checked and a step that reads one of the handler's own response headers back."
EXTRA["C10"] += " A route ten nodes deep; a pattern only a router with interceptors can read (strict mode)."
EXTRA["C11"] += " Every request carries a Host and the origin http://<that host> is among the origins; an allow-list without the CORS-safelisted names; lists of more than 32 requested headers."
EXTRA["C12"] += " A configuration that lists the service's own origin; responses that already carry a Vary member."
EXTRA["C13"] += " A header-version matcher that captures the empty string under the name of a router parameter."
EXTRA["C14"] += " A literal domain that begins with '*'; the case of text after a brace that is never closed; one recorded open finding (a domain added after RegisterInterceptor joining an earlier regexp node) is printed as KNOWN-FINDING."
EXTRA["C16"] += " Groups that hold no router (fresh, emptied, or whose only router rejects); a recovery function that gives up once (panics with http.ErrAbortHandler) followed by another handler panic, run as a work item under the watchdog."
EXTRA["C18"] += " A TRACE handler registered by hand (no option) carries the Use middlewares and is listed by OPTIONS * exactly while it is live."
EXTRA["C19"] += " Twin facade objects with the same prefix text and different middleware lists; removal of a hand-registered TRACE through a facade."
EXTRA["C04"] += " Removal lists made only of unknown names."
EXTRA["C01"] += " A multi-byte literal after a constrained parameter whose value may contain it; tables that start with five constrained parameter siblings and no literal one below one node."
# additions of the eighth seeding round
EXTRA["C01"] += " Pool patterns that end in an ignored-name parameter ({-x}, {-x:digit})."
EXTRA["C05"] += " Requests whose header map holds Accept / Host / Origin / Content-Type with an empty or nil value list; CORS configurations whose lists have empty members (a 500 from the harness router's recovery option on anything but its one panicking route counts as a fault)."
EXTRA["C08"] += " Handler programs that announce a Content-Length of their own."
EXTRA["C14"] += " Fixed trials: domains with two and three parameters and capitals between them; an interceptor parameter before literal text that overlaps itself."
EXTRA["C16"] += " Panic values that wrap context.Canceled and context.DeadlineExceeded."
EXTRA["C17"] += " The rule family has a plain parameter below the constrained one, renamed on its own."
EXTRA["C19"] += " A facade Remove whose method names are not upper case."
EXTRA["C20"] += " Negative zero (-0, -0.0), compared by bit pattern."
def main():
    checks = []
    for pid in ALL:
        if pid not in CHECKS: continue
        eng, tech, text, note, ref = CHECKS[pid]
        if pid in EXTRA: text = text + " " + EXTRA[pid]
        if pid == "C02": text = text + " " + EXTRA["C01"]
        checks.append({
            "property_id": pid,
            "quick_cmd": "./verif %s quick" % pid,
            "thorough_cmd": "./verif %s thorough" % pid,
            "evidence_file": "/verif/evidence/%s.json" % pid,
            "replay_cmd_template": "./verif replay {path}",
            "engine": "engine-" + eng,
            "level_claimed": {"category": "model_checking", "text": text, "design_ref": "DESIGN.md section " + ref},
            "level_note": note,
            "technique": tech,
        })
    na = [{"property_id": p, "reason": PENDING.get(p, "check not built yet in this session (design in DESIGN.md section 4); no claim is made until the explorer for it exists")} for p in ALL if p not in CHECKS]
    m = {
        "version": 1,
        "setup_cmd": "./verif setup",
        "hooks": {
            "guard": "verif",
            "enable": "no source hooks are committed in /repo: instrumentation (sync shim for the controlled scheduler) is injected at build time with `go build -overlay` + `-tags verif` by ./verif; sequential checks build /repo unmodified through a replace directive",
            "baseline_off_cmd": "cd /repo && go test -vet=off -count=1 ./...",
            "source_commits": [],
            "add_only": True,
        },
        "engines": [
            {"name": "engine-S", "path": "harness/explore/bfs.go", "serves_properties": [p for p in ALL if p in CHECKS and CHECKS[p][0] in ("S", "SI")], "kind_free_text": "explicit-state breadth-first search over operation histories executed on the real code (fresh instance + replay per state), global dedup on a reflective canonical dump of private state, reference model as oracle"},
            {"name": "engine-I", "path": "harness/explore/enum.go", "serves_properties": [p for p in ALL if p in CHECKS and CHECKS[p][0] in ("I", "SI")], "kind_free_text": "exhaustive small-scope enumeration of inputs (all strings over a per-state alphabet up to a length, derived witnesses and their edit-1 neighbours, full products of configuration x request classes)"},
            {"name": "engine-C", "path": "harness/explore/sched.go", "serves_properties": [p for p in ALL if p in CHECKS and CHECKS[p][0] == "C"], "kind_free_text": "stateless DFS over thread schedules with iterative preemption bounding under a cooperative scheduler that is invisible to the race detector; per-execution oracle = race-report delta + linearizability against the reference model"},
        ],
        "checks": checks,
        "not_applicable": na,
        "notes": "All checks rebuild the harness against /repo's working tree (replace directive / overlay). Exit 0 = held on everything explored, 1 = VIOLATION line, 2 = harness failure (never reported as a violation). A violation that does not reproduce alone in a fresh process is replayed on its whole work item and then after the work items its worker process had handled before; only if none of these deterministic recipes reproduces is it a harness failure (DESIGN 3.8). known_findings.txt lists recorded and repaired defects.",
    }
    json.dump(m, open("MANIFEST.json", "w"), indent=1)
    print("MANIFEST.json:", len(checks), "checks,", len(na), "not_applicable")
main()
