#!/bin/bash
# usage: seedtest.sh <seed-dir (patch.diff, demo_test.go)> <check-id>...
# In a scratch worktree of /repo HEAD (never /repo itself): suite passes with the change, demo fails with it,
# the given checks (quick) are run against the changed worktree, demo passes without the change.
d=$(cd "$1" && pwd); shift
export GOFLAGS=-mod=mod GOPROXY=off GOSUMDB=off GOTOOLCHAIN=local
W=/tmp/seedcheck.$$; O=/tmp/seedout.$$
git -C /repo worktree add --detach $W HEAD >/dev/null 2>&1 || exit 2
cleanup() { git -C /repo worktree remove --force $W >/dev/null 2>&1; rm -rf $O; }
trap cleanup EXIT
cd $W
if ! git apply "$d/patch.diff" 2>/tmp/seedtest.err; then echo "patch does not apply: $(head -2 /tmp/seedtest.err)"; exit 3; fi
if go build ./... >/dev/null 2>&1 && go test -vet=off -count=1 ./... >/tmp/seedtest.suite 2>&1; then echo "suite with change: PASS"; else echo "suite with change: FAIL"; grep -m3 -E '^--- FAIL|^FAIL' /tmp/seedtest.suite; fi
cp "$d/demo_test.go" ./zz_seed_demo_test.go
race=""; grep -qi '\-race' "$d/notes.md" 2>/dev/null && race="-race"
if go test $race -vet=off -count=1 -run . . >/tmp/seedtest.demo1 2>&1; then echo "demo with change: PASS (seed not confirmed!)"; else echo "demo with change: FAIL (as intended)"; fi
rm zz_seed_demo_test.go
for id in "$@"; do
  (cd ${VERIF_DIR:-/verif} && VERIF_REPO=$W VERIF_OUT=$O ./verif $id quick 2>&1 | grep -E '^VIOLATION|clause=|^C[0-9]+ quick|HARNESS|KNOWN' | head -7)
done
git checkout -- . ; cp "$d/demo_test.go" ./zz_seed_demo_test.go
if go test $race -vet=off -count=1 -run . . >/tmp/seedtest.demo2 2>&1; then echo "demo without change: PASS"; else echo "demo without change: FAIL (seed not confirmed!)"; tail -5 /tmp/seedtest.demo2; fi
rm zz_seed_demo_test.go
