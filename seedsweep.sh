#!/bin/bash
# Re-runs every archived seed against the current /repo tree with the check(s) that are recorded as detecting it.
# Output: one line per seed: DETECTED / MISSED / STALE-PATCH. Never leaves /repo modified.
cd /verif
git -C /repo diff --quiet || { echo "repo dirty"; exit 2; }
only="$1"
for d in seeded/*; do
  name=$(basename $d)
  [ -n "$only" ] && [[ "$name" != $only* ]] && continue
  checks=$(python3 -c "
import json,re,sys
m=json.load(open('$d/meta.json'))
ids=re.findall(r'C\d\d(?= quick)', m['detected_by'])
seen=[]
for i in ids:
    if i not in seen: seen.append(i)
print(' '.join(seen[:2]))")
  if ! git -C /repo apply --check $PWD/$d/patch.diff 2>/dev/null; then echo "$name STALE-PATCH (does not apply to the current tree)"; continue; fi
  git -C /repo apply $PWD/$d/patch.diff
  res=MISSED
  for c in $checks; do
    if ./verif $c quick 2>&1 | grep -q '^VIOLATION'; then res="DETECTED by $c"; break; fi
  done
  git -C /repo checkout -- .
  echo "$name $res (checks tried: $checks)"
done
