#!/bin/bash
# Re-runs every archived seed against the current /repo HEAD with the check(s) recorded as detecting it.
# Each seed is applied in its own scratch worktree (VERIF_REPO) with its own output dir (VERIF_OUT), so /repo
# and /verif/evidence are never touched and several seeds run at once.
# usage: seedsweep.sh [name-prefix] ; output: one line per seed: DETECTED / MISSED / STALE-PATCH
cd /verif
export GOFLAGS=-mod=mod GOPROXY=off GOSUMDB=off GOTOOLCHAIN=local
only="${1:-}"; par="${SWEEP_PAR:-4}"
one() {
  d=$1; name=$(basename $d)
  checks=$(python3 -c "
import json,re
m=json.load(open('$d/meta.json'))
seen=[]
for i in re.findall(r'C\d\d(?= quick)', m['detected_by']):
    if i not in seen: seen.append(i)
print(' '.join(seen[:2]))")
  wt=/tmp/sweep.$name; out=/tmp/sweepout.$name
  rm -rf $out; git -C /repo worktree remove --force $wt >/dev/null 2>&1
  git -C /repo worktree add --detach $wt HEAD >/dev/null 2>&1 || { echo "$name ERROR worktree"; return; }
  # exact apply first; else the same hunks with fuzzy context (later fix commits moved neighbouring lines)
  if ! git -C $wt apply /verif/$d/patch.diff 2>/dev/null && ! (cd $wt && patch -p1 -F3 -s --no-backup-if-mismatch < /verif/$d/patch.diff >/dev/null 2>&1 && go build ./... 2>/dev/null); then echo "$name STALE-PATCH (does not apply to the current tree)"; git -C /repo worktree remove --force $wt; return; fi
  res=MISSED
  for c in $checks; do
    if VERIF_REPO=$wt VERIF_OUT=$out VERIF_WORKERS=4 ./verif $c quick 2>&1 | grep -q '^VIOLATION'; then res="DETECTED by $c"; break; fi
  done
  git -C /repo worktree remove --force $wt; rm -rf $out
  echo "$name $res (checks tried: $checks)"
}
export -f one
ls -d seeded/C* | while read d; do n=$(basename $d); [ -n "$only" ] && [[ "$n" != $only* ]] && continue; echo $d; done | xargs -P $par -I{} bash -c 'one {}'
