#!/bin/bash
# Full re-confirmation of every archived seed against the current /repo HEAD, each in its own scratch worktree:
# patch applies, unedited suite passes with it, its demonstration fails with it, and a check named in its meta.json
# (detected_by) reports a VIOLATION. Seeds marked superseded are skipped (their meta.json says why).
# usage: seedconfirm.sh [name-prefix]; SWEEP_PAR = parallelism (default 4)
cd /verif
only="${1:-}"; par="${SWEEP_PAR:-4}"
one() {
  d=$1; name=$(basename $d)
  if grep -q '"status_on_current_tree": "superseded' $d/meta.json; then echo "$name SUPERSEDED (see meta.json)"; return; fi
  if grep -q '"status_on_current_tree": "not detected' $d/meta.json; then echo "$name NOT-DETECTED (see meta.json)"; return; fi
  checks=$(python3 -c "
import json,re
m=json.load(open('$d/meta.json'))
seen=[]
for i in re.findall(r'C\d\d(?= quick)', m['detected_by']):
    if i not in seen: seen.append(i)
print(' '.join(seen[:3]))")
  r=$(VERIF_WORKERS=4 ./seedtest.sh $d $checks 2>&1)
  if echo "$r" | grep -q "does not apply"; then echo "$name STALE-PATCH"; return; fi
  s="suite-ok"; echo "$r" | grep -q "suite with change: PASS" || s="SUITE-FAILS"
  dm="demo-fails-with-change"; echo "$r" | grep -q "demo with change: FAIL" || dm="DEMO-PASSES-WITH-CHANGE"
  dn="demo-passes-without"; echo "$r" | grep -q "demo without change: PASS" || dn="DEMO-FAILS-WITHOUT"
  det="MISSED"; for c in $checks; do if echo "$r" | grep -q "^VIOLATION property=$c"; then det="DETECTED by $c"; break; fi; done
  echo "$r" | grep -q HARNESS && det="HARNESS-FAILURE"
  echo "$name $s $dm $dn $det (checks: $checks)"
}
export -f one
ls -d seeded/C* | while read d; do n=$(basename $d); [ -n "$only" ] && [[ "$n" != $only* ]] && continue; echo $d; done | xargs -P $par -I{} bash -c 'one {}'
