package ref

import (
	"sort"
	"strings"
)

// Outcome is one admissible answer of the documented resolution procedure.
type Outcome struct {
	Pattern string
	Params  map[string]string
}

func (o Outcome) String() string {
	ks := make([]string, 0, len(o.Params))
	for k := range o.Params {
		ks = append(ks, k)
	}
	sort.Strings(ks)
	var b strings.Builder
	b.WriteString(o.Pattern)
	b.WriteByte('{')
	for i, k := range ks {
		if i > 0 {
			b.WriteByte(',')
		}
		b.WriteString(k + "=" + quote(o.Params[k]))
	}
	b.WriteByte('}')
	return b.String()
}

func quote(s string) string { return "\"" + s + "\"" }

// cursor is a position inside a pattern.
type cursor struct {
	p   *Pattern
	ti  int // token index
	off int // offset inside a literal token
}

func (c cursor) done() bool { return c.ti == len(c.p.Tokens) }

func (c cursor) litByte() (byte, bool) {
	if c.done() {
		return 0, false
	}
	t := &c.p.Tokens[c.ti]
	if t.Kind != Lit {
		return 0, false
	}
	return t.Text[c.off], true
}

func (c cursor) step() cursor {
	t := &c.p.Tokens[c.ti]
	if c.off+1 == len(t.Text) {
		return cursor{c.p, c.ti + 1, 0}
	}
	return cursor{c.p, c.ti, c.off + 1}
}

func (c cursor) param() *Token {
	if c.done() || c.off != 0 {
		return nil
	}
	t := &c.p.Tokens[c.ti]
	if t.Kind == Lit {
		return nil
	}
	return t
}

// runAfter is the literal run following the parameter token at c ("" at the end).
func (c cursor) runAfter() string {
	if c.ti+1 < len(c.p.Tokens) {
		return c.p.Tokens[c.ti+1].Text // adjacent parameters are not well-formed, so this is a literal
	}
	return ""
}

// Resolve evaluates the documented left-to-right procedure on the pattern set
// and returns every admissible outcome; an empty result means 404.
func Resolve(pats []*Pattern, path string) []Outcome {
	cs := make([]cursor, len(pats))
	for i, p := range pats {
		cs[i] = cursor{p: p}
	}
	out := resolve(path, cs, map[string]string{})
	return dedupOutcomes(out)
}

func dedupOutcomes(in []Outcome) []Outcome {
	seen := map[string]bool{}
	var out []Outcome
	for _, o := range in {
		k := o.String()
		if !seen[k] {
			seen[k] = true
			out = append(out, o)
		}
	}
	sort.Slice(out, func(i, j int) bool { return out[i].String() < out[j].String() })
	return out
}

func copyParams(m map[string]string) map[string]string {
	n := make(map[string]string, len(m)+1)
	for k, v := range m {
		n[k] = v
	}
	return n
}

func completes(rest string, cs []cursor, params map[string]string) []Outcome {
	var out []Outcome
	if rest != "" {
		return nil
	}
	for _, c := range cs {
		if c.done() {
			out = append(out, Outcome{c.p.Src, copyParams(params)})
		}
	}
	return out
}

func resolve(rest string, cs []cursor, params map[string]string) []Outcome {
	if len(cs) == 0 {
		return nil
	}
	// 1. literal text first
	if rest != "" {
		var l []cursor
		for _, c := range cs {
			if b, ok := c.litByte(); ok && b == rest[0] {
				l = append(l, c.step())
			}
		}
		if r := resolve(rest[1:], l, params); len(r) > 0 {
			return r
		}
	}
	// 2..4 interceptor, regexp, named
	for _, kind := range []Kind{Interceptor, Regexp, Named} {
		type gkey struct {
			tok   string
			first int // first literal byte after the token, -1 = end of pattern
		}
		groups := map[gkey][]cursor{}
		var order []gkey
		for _, c := range cs {
			t := c.param()
			if t == nil || t.Kind != kind {
				continue
			}
			k := gkey{t.Text, -1}
			if run := c.runAfter(); run != "" {
				k.first = int(run[0])
			}
			if _, ok := groups[k]; !ok {
				order = append(order, k)
			}
			groups[k] = append(groups[k], c)
		}
		var res []Outcome
		for _, k := range order {
			res = append(res, tryGroup(rest, groups[k], k.first < 0, params)...)
		}
		if len(res) > 0 {
			// a static route versus a parameter that matched the empty string
			// at its end: either may win.
			res = append(res, completes(rest, cs, params)...)
			return res
		}
	}
	// 5. the pattern ends here
	return completes(rest, cs, params)
}

func tryGroup(rest string, g []cursor, end bool, params map[string]string) []Outcome {
	t := g[0].param()
	if end {
		if !t.Accepts(rest) {
			return nil
		}
		var out []Outcome
		for _, c := range g {
			ps := copyParams(params)
			if !t.Ignore {
				ps[t.Name] = rest
			}
			out = append(out, Outcome{c.p.Src, ps})
		}
		return out
	}
	// effective suffix: longest common prefix of the members' literal runs
	s := g[0].runAfter()
	for _, c := range g[1:] {
		s = lcp(s, c.runAfter())
	}
	// shortest v with rest = v·s·rest' and constraint(v)
	for idx := 0; idx+len(s) <= len(rest); idx++ {
		if !strings.HasPrefix(rest[idx:], s) {
			continue
		}
		v := rest[:idx]
		if !t.Accepts(v) {
			continue
		}
		ps := params
		if !t.Ignore {
			ps = copyParams(params)
			ps[t.Name] = v
		}
		adv := make([]cursor, len(g))
		for i, c := range g {
			n := cursor{c.p, c.ti + 1, 0}
			for k := 0; k < len(s); k++ {
				n = n.step()
			}
			adv[i] = n
		}
		// fall back, never widen: only this first capture is pursued.
		return resolve(rest[idx+len(s):], adv, ps)
	}
	return nil
}

func lcp(a, b string) string {
	n := 0
	for n < len(a) && n < len(b) && a[n] == b[n] {
		n++
	}
	return a[:n]
}
