// Package ref holds the reference models. They are written independently of
// mux (no tree, no shared code) and define only what the properties state.
package ref

import (
	"fmt"
	"regexp"
	"strings"
)

// Kind of a token, in priority order.
type Kind int

const (
	Lit Kind = iota
	Interceptor
	Regexp
	Named
)

func (k Kind) String() string { return [...]string{"literal", "interceptor", "regexp", "named"}[k] }

// Interceptors maps a rule text to its matching function.
type Interceptors map[string]func(string) bool

func MatchAny(s string) bool { return len(s) > 0 }

func MatchDigit(s string) bool {
	if s == "" {
		return false
	}
	for i := 0; i < len(s); i++ {
		if s[i] < '0' || s[i] > '9' {
			return false
		}
	}
	return true
}

func MatchWord(s string) bool {
	if s == "" {
		return false
	}
	for i := 0; i < len(s); i++ {
		c := s[i]
		if !(c >= '0' && c <= '9' || c >= 'a' && c <= 'z' || c >= 'A' && c <= 'Z') {
			return false
		}
	}
	return true
}

// Token is a literal run or one parameter.
type Token struct {
	Kind   Kind
	Text   string // literal text, or the token text "{...}"
	Name   string // without the '-' flag
	Rule   string
	Ignore bool
	re     *regexp.Regexp // ^(?:rule)$
	pre    *regexp.Regexp // ^(?:rule) -- prefix form, leftmost-first
	fn     func(string) bool
}

// Accepts says whether v satisfies the parameter's constraint over its whole length.
func (t *Token) Accepts(v string) bool {
	switch t.Kind {
	case Named:
		return true
	case Interceptor:
		return t.fn(v)
	case Regexp:
		return t.re.MatchString(v)
	}
	return false
}

// Pattern is a parsed well-formed pattern.
type Pattern struct {
	Src    string
	Tokens []Token
}

// Parse tokenises a pattern. Error classes follow the documentation: empty
// name, adjacent parameters, duplicate names, uncompilable regexp, unbalanced
// braces.
func Parse(src string, ic Interceptors) (*Pattern, error) {
	if src == "" {
		return nil, fmt.Errorf("empty")
	}
	p := &Pattern{Src: src}
	names := map[string]bool{}
	i := 0
	lastParam := false
	for i < len(src) {
		if src[i] == '{' {
			j := strings.IndexByte(src[i:], '}')
			if j < 0 {
				return nil, fmt.Errorf("unbalanced")
			}
			body := src[i+1 : i+j]
			if strings.ContainsRune(body, '{') {
				return nil, fmt.Errorf("unbalanced")
			}
			if lastParam {
				return nil, fmt.Errorf("adjacent")
			}
			t := Token{Text: src[i : i+j+1]}
			name, rule := body, ""
			if k := strings.IndexByte(body, ':'); k >= 0 {
				name, rule = body[:k], body[k+1:]
			}
			if strings.HasPrefix(name, "-") {
				t.Ignore = true
				name = name[1:]
			}
			if name == "" {
				return nil, fmt.Errorf("empty-name")
			}
			if names[name] {
				return nil, fmt.Errorf("duplicate")
			}
			names[name] = true
			t.Name, t.Rule = name, rule
			switch {
			case rule == "":
				t.Kind = Named
			case ic[rule] != nil:
				t.Kind = Interceptor
				t.fn = ic[rule]
			default:
				t.Kind = Regexp
				if _, err := regexp.Compile(rule); err != nil { // the rule must be an expression on its own
					return nil, fmt.Errorf("bad-regexp")
				}
				re, err := regexp.Compile("^(?:" + rule + ")$")
				if err != nil {
					return nil, fmt.Errorf("bad-regexp")
				}
				t.re = re
				t.pre = regexp.MustCompile("^(?:" + rule + ")")
			}
			p.Tokens = append(p.Tokens, t)
			lastParam = true
			i += j + 1
			continue
		}
		j := strings.IndexByte(src[i:], '{')
		if j < 0 {
			j = len(src) - i
		}
		lit := src[i : i+j]
		// a '}' outside a parameter is ordinary literal text (mux and CheckSyntax take it as such)
		p.Tokens = append(p.Tokens, Token{Kind: Lit, Text: lit})
		lastParam = false
		i += j
	}
	return p, nil
}

// MustParse panics on error (harness pools are well-formed).
func MustParse(src string, ic Interceptors) *Pattern {
	p, err := Parse(src, ic)
	if err != nil {
		panic(fmt.Sprintf("ref.MustParse(%q): %v", src, err))
	}
	return p
}

// Names returns the capturing parameter names.
func (p *Pattern) Names() []string {
	var ns []string
	for _, t := range p.Tokens {
		if t.Kind != Lit && !t.Ignore {
			ns = append(ns, t.Name)
		}
	}
	return ns
}

// AllNames returns every parameter name, ignored ones included.
func (p *Pattern) AllNames() []string {
	var ns []string
	for _, t := range p.Tokens {
		if t.Kind != Lit {
			ns = append(ns, t.Name)
		}
	}
	return ns
}

// HasIgnored reports whether the pattern has a '-' parameter.
func (p *Pattern) HasIgnored() bool {
	for _, t := range p.Tokens {
		if t.Kind != Lit && t.Ignore {
			return true
		}
	}
	return false
}

// Instantiate substitutes params (by name, '-' ignored) into the pattern.
func (p *Pattern) Instantiate(params map[string]string) (string, bool) {
	var b strings.Builder
	for _, t := range p.Tokens {
		if t.Kind == Lit {
			b.WriteString(t.Text)
			continue
		}
		v, ok := params[t.Name]
		if !ok {
			return "", false
		}
		b.WriteString(v)
	}
	return b.String(), true
}

// Explain decides whether path equals the pattern with every capturing
// parameter replaced by params[name] (the value satisfying its constraint over
// its whole length) and ignored parameters replaced by some accepted text.
// It returns "" when it does, else a reason.
func (p *Pattern) Explain(path string, params map[string]string) string {
	if ok, why := explain(p.Tokens, path, params); !ok {
		return why
	}
	return ""
}

func explain(ts []Token, rest string, params map[string]string) (bool, string) {
	if len(ts) == 0 {
		if rest == "" {
			return true, ""
		}
		return false, fmt.Sprintf("path has %q left after the pattern ended", rest)
	}
	t := &ts[0]
	if t.Kind == Lit {
		if !strings.HasPrefix(rest, t.Text) {
			return false, fmt.Sprintf("literal %q does not occur at %q", t.Text, rest)
		}
		return explain(ts[1:], rest[len(t.Text):], params)
	}
	if !t.Ignore {
		v, ok := params[t.Name]
		if !ok {
			return false, fmt.Sprintf("parameter %s missing", t.Name)
		}
		if !strings.HasPrefix(rest, v) {
			return false, fmt.Sprintf("value %s=%q does not occur at %q", t.Name, v, rest)
		}
		if !t.Accepts(v) {
			return false, fmt.Sprintf("value %s=%q rejected by its %s constraint %q", t.Name, v, t.Kind, t.Rule)
		}
		return explain(ts[1:], rest[len(v):], params)
	}
	why := ""
	for n := 0; n <= len(rest); n++ {
		if !t.Accepts(rest[:n]) {
			continue
		}
		ok, w := explain(ts[1:], rest[n:], params)
		if ok {
			return true, ""
		}
		why = w
	}
	if why == "" {
		why = fmt.Sprintf("no text at %q satisfies ignored parameter %s", rest, t.Name)
	}
	return false, why
}
