package ref

import (
	"sort"
	"strings"
)

// AnyMethods are the methods registered when Handle gets an empty list.
var AnyMethods = []string{"GET", "POST", "DELETE", "PUT", "PATCH", "CONNECT"}

// Known are all method names mux knows.
var Known = map[string]bool{"GET": true, "POST": true, "DELETE": true, "PUT": true, "PATCH": true, "CONNECT": true, "TRACE": true, "HEAD": true, "OPTIONS": true}

// Route is one live pattern.
type Route struct {
	Pattern string
	P       *Pattern
	Methods map[string]string // method → handler id (explicitly registered methods only)
	MWs     []string          // middlewares of the call that made the pattern live (outermost first)
}

// Table is the model of a router's route table.
type Table struct {
	IC     Interceptors
	Trace  bool
	Routes map[string]*Route
	Uses   int // number of Router.Use middlewares applied so far
}

func NewTable(ic Interceptors, trace bool) *Table {
	return &Table{IC: ic, Trace: trace, Routes: map[string]*Route{}}
}

func (t *Table) Clone() *Table {
	n := NewTable(t.IC, t.Trace)
	n.Uses = t.Uses
	for k, r := range t.Routes {
		nr := &Route{Pattern: r.Pattern, P: r.P, Methods: map[string]string{}, MWs: append([]string(nil), r.MWs...)}
		for m, h := range r.Methods {
			nr.Methods[m] = h
		}
		n.Routes[k] = nr
	}
	return n
}

// Verdict of the model on a Handle call.
type Verdict int

const (
	Accept Verdict = iota
	Reject
	Either // the statement allows both (ambiguity with more than one other route)
)

// SameUpToNames reports whether two patterns are identical up to parameter
// names and the '-' flag.
func SameUpToNames(a, b *Pattern) bool {
	if len(a.Tokens) != len(b.Tokens) {
		return false
	}
	for i := range a.Tokens {
		x, y := &a.Tokens[i], &b.Tokens[i]
		if x.Kind != y.Kind {
			return false
		}
		if x.Kind == Lit {
			if x.Text != y.Text {
				return false
			}
			continue
		}
		if x.Rule != y.Rule {
			return false
		}
	}
	return true
}

// Judge says what must happen to Handle(pattern, methods...) and why.
func (t *Table) Judge(pattern string, methods []string) (Verdict, string) {
	p, err := Parse(pattern, t.IC)
	if err != nil {
		return Reject, "malformed:" + err.Error()
	}
	if len(methods) == 0 {
		methods = AnyMethods
	}
	seen := map[string]bool{}
	r := t.Routes[pattern]
	for _, m := range methods {
		switch {
		case m == "OPTIONS" || m == "HEAD":
			return Reject, "reserved:" + m
		case m == "TRACE" && t.Trace:
			return Reject, "reserved:TRACE"
		case !Known[m]:
			return Reject, "unknown-method"
		case seen[m]:
			return Reject, "duplicate-in-list"
		case r != nil && r.Methods[m] != "":
			return Reject, "duplicate"
		}
		seen[m] = true
	}
	amb := 0
	for k, o := range t.Routes {
		if k != pattern && SameUpToNames(p, o.P) {
			amb++
		}
	}
	if amb > 0 {
		if len(t.Routes) == 1 {
			return Reject, "ambiguous"
		}
		return Either, "ambiguous"
	}
	return Accept, ""
}

// Handle applies an accepted registration.
func (t *Table) Handle(pattern, hid string, mws []string, methods ...string) {
	if len(methods) == 0 {
		methods = AnyMethods
	}
	r := t.Routes[pattern]
	if r == nil {
		r = &Route{Pattern: pattern, P: MustParse(pattern, t.IC), Methods: map[string]string{}, MWs: append([]string(nil), mws...)}
		t.Routes[pattern] = r
	}
	for _, m := range methods {
		r.Methods[m] = hid
	}
}

// Remove follows the documentation: no methods = whole route; OPTIONS and
// HEAD cannot be removed by hand (HEAD follows GET); unknown or absent methods
// are ignored; the route dies with its last method.
func (t *Table) Remove(pattern string, methods ...string) {
	r := t.Routes[pattern]
	if r == nil {
		return
	}
	if len(methods) == 0 {
		delete(t.Routes, pattern)
		return
	}
	for _, m := range methods {
		delete(r.Methods, m)
	}
	if len(r.Methods) == 0 {
		delete(t.Routes, pattern)
	}
}

// Clean removes every route whose pattern starts with prefix.
func (t *Table) Clean(prefix string) {
	for k := range t.Routes {
		if strings.HasPrefix(k, prefix) {
			delete(t.Routes, k)
		}
	}
}

// Allow is the method set of a live pattern.
func (t *Table) Allow(pattern string) []string {
	r := t.Routes[pattern]
	if r == nil {
		return nil
	}
	set := map[string]bool{"OPTIONS": true}
	for m := range r.Methods {
		set[m] = true
	}
	if set["GET"] {
		set["HEAD"] = true
	}
	if t.Trace {
		set["TRACE"] = true
	}
	return sortedKeys(set)
}

// StarAllow is the method set of OPTIONS *: must-haves; HEAD is optional.
func (t *Table) StarAllow() []string {
	set := map[string]bool{"OPTIONS": true}
	if t.Trace {
		set["TRACE"] = true
	}
	for _, r := range t.Routes {
		for m := range r.Methods {
			set[m] = true
		}
	}
	return sortedKeys(set)
}

func sortedKeys(m map[string]bool) []string {
	ks := make([]string, 0, len(m))
	for k := range m {
		ks = append(ks, k)
	}
	sort.Strings(ks)
	return ks
}

// Patterns returns the live patterns, sorted.
func (t *Table) Patterns() []string {
	ks := make([]string, 0, len(t.Routes))
	for k := range t.Routes {
		ks = append(ks, k)
	}
	sort.Strings(ks)
	return ks
}

// Parsed returns the live patterns parsed, sorted by source.
func (t *Table) Parsed() []*Pattern {
	var ps []*Pattern
	for _, k := range t.Patterns() {
		ps = append(ps, t.Routes[k].P)
	}
	return ps
}

// String renders the table canonically (used in the state key).
func (t *Table) String() string {
	var b strings.Builder
	if t.Uses > 0 {
		b.WriteString("uses=" + strings.Repeat("A", t.Uses) + " ")
	}
	for _, k := range t.Patterns() {
		r := t.Routes[k]
		b.WriteString(k)
		b.WriteByte('[')
		ms := make([]string, 0, len(r.Methods))
		for m := range r.Methods {
			ms = append(ms, m)
		}
		sort.Strings(ms)
		for _, m := range ms {
			b.WriteString(m + "=" + r.Methods[m] + ",")
		}
		b.WriteString("|" + strings.Join(r.MWs, ","))
		b.WriteString("] ")
	}
	return b.String()
}

// ParseAllow splits an Allow header into a sorted set.
func ParseAllow(h string) []string {
	if h == "" {
		return nil
	}
	parts := strings.Split(h, ",")
	set := map[string]bool{}
	for _, p := range parts {
		set[strings.TrimSpace(p)] = true
	}
	return sortedKeys(set)
}
