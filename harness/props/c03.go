package props

import (
	"encoding/json"
	"fmt"
	"strings"

	"verifharness/explore"
	"verifharness/hv"
	"verifharness/ref"
)

// ---- C03: route table lifecycle ----

var c03Pool = []string{"/a", "/b", "/c", "/d", "/e", "/f", "/g", "/{x}", `/{x:\d+}`, "/a/{x}", "/a/b", "/ab", "a", "b"}

func c03Alphabet() []Op {
	var ops []Op
	for _, p := range c03Pool {
		ops = append(ops, Op{K: "handle", P: p, Ms: []string{"GET"}})
	}
	for _, p := range []string{"/a", "/{x}", "/a/{x}", "/ab"} {
		ops = append(ops, Op{K: "handle", P: p, Ms: []string{"POST"}})
	}
	ops = append(ops,
		Op{K: "multi", Ps: []string{"/a", "/b", "/c", "/d", "/e", "/f"}, Ms: []string{"GET"}},
		Op{K: "multi", Ps: []string{"/c", "/d", "/e", "/f", "/g"}, Ms: []string{"GET"}},
		Op{K: "handle", P: "/a"}, // Any
	)
	for _, p := range c03Pool {
		ops = append(ops, Op{K: "remove", P: p})
	}
	for _, p := range []string{"/a", "/{x}", "/a/{x}"} {
		ops = append(ops, Op{K: "remove", P: p, Ms: []string{"GET"}})
	}
	ops = append(ops,
		Op{K: "remove", P: "/a", Ms: []string{"POST"}},
		Op{K: "remove", P: "/{x}", Ms: []string{"POST"}},
		Op{K: "remove", P: "/a", Ms: []string{""}},
		Op{K: "remove", P: "/a", Ms: []string{"HEAD"}},
		Op{K: "remove", P: "/a", Ms: []string{"OPTIONS"}},
		Op{K: "remove", P: "/a", Ms: []string{"PATCH"}},
		Op{K: "remove", P: "/zz"},
		Op{K: "clean"},
		Op{K: "pclean", P: ""},
		Op{K: "pclean", P: "/"},
		Op{K: "pclean", P: "/a"},
		Op{K: "pclean", P: "/a/"},
		Op{K: "rclean", P: "/a"},
		Op{K: "rclean", P: "/{x}"},
		Op{K: "premove", Ps: []string{"/a"}, P: "/b"},
		Op{K: "reject", P: "/h", Ms: []string{"get"}},
		Op{K: "reject", P: "/a", Ms: []string{"PATCH", "BOGUS"}},
		Op{K: "reject", P: "/az", Ms: []string{"GET", "GET"}},
		Op{K: "use"},
		Op{K: "handle", P: "/a", Ms: []string{"TRACE"}}, // only without WithTrace: an ordinary method then
		Op{K: "remove", P: "/a", Ms: []string{"GET", "POST"}},
		Op{K: "remove", P: "/a", Ms: []string{"HEAD", "GET"}}, // a reserved name in front: skipped, GET still goes
		// a base table in one step, so that depth-2 and depth-3 removals act on nodes that have routes below
		// them, literal and parameter siblings and a sibling sharing a prefix
		Op{K: "multi", Ps: []string{"/a", "/a/b", "/ab", "/{x}", "/a/{x}"}, Ms: []string{"GET"}},
	)
	return ops
}

// c03SplitPool (family 1): routes below one parameter whose following literal text shares a prefix, so that the text
// is split between nodes while both are live and the question is what is left when one of them goes again.
var c03SplitPool = []string{"/p/{x}/{y}", "/p/{x}/bc", "/p/{x}/bcd", "/p/{x}/bd", "/p/{x}/b", `/p/{x:\d+}/bc`, `/p/{x:\d+}/bd`, "/p/{x}"}

func c03SplitAlphabet() []Op {
	var ops []Op
	for _, p := range c03SplitPool {
		ops = append(ops, Op{K: "handle", P: p, Ms: []string{"GET"}})
	}
	for _, p := range c03SplitPool {
		ops = append(ops, Op{K: "remove", P: p})
	}
	return append(ops, Op{K: "clean"}, Op{K: "pclean", P: "/p/{x}/b"}, Op{K: "pclean", P: "/p/{x}/"}, Op{K: "pclean", P: "/p/{x}/bc"}, Op{K: "remove", P: "/p/{x}/bc", Ms: []string{"GET"}})
}

// c03OrderPool (family 2): parameter siblings of equal rank whose matches overlap (/p/zz/bcd is {t}=zz/bc + d as
// well as {x}=zz + /bcd), with chains of literal text below one of them, so that a removal restructures one sibling
// while the other is a live candidate for the same paths: which of the two answers must not depend on the removal.
var c03OrderPool = []string{"/p/{t}d", "/p/{x}/b", "/p/{x}/bc", "/p/{x}/bcd", "/p/{t}d/e", "/p/{u}+", "/p/{u}+-"}

func c03OrderAlphabet() []Op {
	var ops []Op
	for _, p := range c03OrderPool {
		ops = append(ops, Op{K: "handle", P: p, Ms: []string{"GET"}})
	}
	for _, p := range c03OrderPool {
		ops = append(ops, Op{K: "remove", P: p})
	}
	return append(ops, Op{K: "pclean", P: "/p/{x}/"}, Op{K: "pclean", P: "/p/{t}d"})
}

func c03AlphabetOf(family int) []Op {
	switch family {
	case 1:
		return c03SplitAlphabet()
	case 2:
		return c03OrderAlphabet()
	}
	return c03Alphabet()
}

func c03PathsOf(family int, ic ref.Interceptors) []string {
	if family == 2 {
		return []string{"/p/zz/bcd", "/p/zz/bc", "/p/zz/b", "/p/zzd", "/p/zz/bd", "/p/zzd/e", "/p/zz/bcd/e", "/p/zz+", "/p/zz+-", "/p/zz+-d", "/p/zz/b+", "/p/zz/bcd+-", "/p/zz"}
	}
	if family != 1 {
		return c03Paths(ic)
	}
	// values that contain pieces of the literal text that follows the parameter
	return []string{"/p/zz/bc", "/p/zz/bd", "/p/zz/b", "/p/7/bc", "/p/7/bd", "/p/zz", "/p/7", "/p/zz/7", "/p/1/2", "/p/1/2/3", "/p/zz/bcd", "/p/1/b/bcd", "/p/1/bc/bcd", "/p/1/b/bc", "/p/1/b/bd", "/p/1/bd/bc", "/p/1/b/b", "/p/1/bc/bc", "/p/7/b/bc", "/p/1//bc", "/p/1/bcd", "/p/zz/"}
}

// simple witness values share no byte with any literal text of the pools.
func simpleValue(t *ref.Token) string {
	switch {
	case t.Kind == ref.Named:
		return "zz"
	case t.Rule == "[ab]+":
		return "ab" // not "simple"; only used outside C03
	default:
		return "7"
	}
}

// Witness builds the request path of a pattern with simple parameter values.
func Witness(p *ref.Pattern) string {
	var b strings.Builder
	for i := range p.Tokens {
		t := &p.Tokens[i]
		if t.Kind == ref.Lit {
			b.WriteString(t.Text)
		} else {
			b.WriteString(simpleValue(t))
		}
	}
	return b.String()
}

var c03Methods = []string{"GET", "HEAD", "POST", "OPTIONS", "BOGUS", "PUT"}

func c03Paths(ic ref.Interceptors) []string {
	seen := map[string]bool{}
	var ps []string
	add := func(s string) {
		if !seen[s] {
			seen[s] = true
			ps = append(ps, s)
		}
	}
	for _, p := range c03Pool {
		add(Witness(ref.MustParse(p, ic)))
	}
	for _, c := range "abcdefg" {
		add("/" + string(c))
		add("/" + string(c) + "zz")
		add("/" + string(c) + "/zz")
	}
	for _, s := range []string{"/", "/zz/zz", "/7/7", "azz", "zz", "/a/", "/ab/zz", "/a/b/zz", "/a/7"} {
		add(s)
	}
	return ps
}

type c03Cfg struct {
	Router RouterCfg `json:"router"`
	Family int       `json:"family,omitempty"`
}

type probeVec struct {
	exp []Expect
	obs []*hv.Obs
}

// c03Probe probes the router with every (path, method) and checks each
// observation against the model. It returns violations and the vector.
func c03Probe(r *Router, t *ref.Table, paths []string, hist []string, cfg string, prop string, out *[]explore.Violation, outcomes map[string]struct{}) (vec probeVec, n int64) {
	for _, p := range paths {
		e := ExpectFor(t, p)
		for _, m := range c03Methods {
			q := hv.Req{Method: m, Path: p}
			o := hv.Serve(r, q)
			n++
			vec.exp = append(vec.exp, e)
			vec.obs = append(vec.obs, o)
			outcomes[fmt.Sprintf("%d/%s/%s", o.Status, o.Kind, o.Pattern)] = struct{}{}
			if class, obs, exp := CheckDispatch(t, q, o, e); class != "" {
				*out = append(*out, explore.Violation{Property: prop, Clause: prop + ".dispatch", Class: class, Config: cfg, History: hist, Probe: q.String(), Observed: obs, Expected: exp})
			}
		}
	}
	return
}

func mustJSON(v any) json.RawMessage {
	b, err := json.Marshal(v)
	if err != nil {
		panic(err)
	}
	return b
}

func opsStrings(ops []Op) []string {
	s := make([]string, len(ops))
	for i, o := range ops {
		s[i] = o.String()
	}
	return s
}

// buildHistory replays ops on a fresh router and model. A panic in an enabled
// op is itself a violation and is returned.
func buildHistory(cfg RouterCfg, ops []Op) (*Router, *ref.Table, string) {
	r := NewRouter(cfg)
	t := ref.NewTable(Interceptors(cfg.IC), cfg.Trace)
	for _, o := range ops {
		if v, bad := ApplyImpl(r, o); bad {
			return r, t, fmt.Sprintf("%s panicked: %v", o, v)
		}
		ApplyModel(t, o)
	}
	return r, t, ""
}

func c03Expand(raw json.RawMessage) (any, error) {
	var in explore.ExpandIn
	if err := json.Unmarshal(raw, &in); err != nil {
		return nil, err
	}
	var cfg c03Cfg
	if err := json.Unmarshal(in.Cfg, &cfg); err != nil {
		return nil, err
	}
	alpha := c03AlphabetOf(cfg.Family)
	ic := Interceptors(cfg.Router.IC)
	paths := c03PathsOf(cfg.Family, ic)
	hist := make([]Op, len(in.History))
	for i, k := range in.History {
		hist[i] = alpha[k]
	}
	var kids []explore.Child

	// the parent state: observation vector before the step (frame condition)
	pr, pt, perr := buildHistory(cfg.Router, hist)
	if perr != "" {
		return nil, fmt.Errorf("parent history not replayable: %s", perr)
	}
	var rootV []explore.Violation
	rootOut := map[string]struct{}{}
	before, n0 := c03Probe(pr, pt, paths, opsStrings(hist), cfg.Router.String(), "C03", &rootV, rootOut)
	if len(in.History) == 0 && in.Want(-1) {
		kids = append(kids, explore.Child{Op: -1, Key: explore.Key(pr) + "|" + pt.String(), Viols: rootV, Probes: n0, Outcomes: keys(rootOut)})
	}

	for k, op := range alpha {
		if !Enabled(pt, op) || !in.Want(k) {
			continue
		}
		full := append(append([]Op{}, hist...), op)
		hs := opsStrings(full)
		r, t, _ := buildHistory(cfg.Router, hist)
		c := explore.Child{Op: k}
		outc := map[string]struct{}{}
		if v, bad := ApplyImpl(r, op); bad {
			c.Viols = append(c.Viols, explore.Violation{Property: "C03", Clause: "C03.no-panic", Class: "op-panic:" + shortPanic(v), Config: cfg.Router.String(), History: hs,
				Observed: fmt.Sprintf("%s panicked: %v", op, v), Expected: "no panic"})
			c.Key = "panic:" + explore.Key(r)
			c.NoExpand = true
			kids = append(kids, c)
			continue
		}
		ApplyModel(t, op)
		// Routes()
		got, want := RoutesString(RoutesOf(r)), RoutesString(ModelRoutes(t))
		if got != want {
			c.Viols = append(c.Viols, explore.Violation{Property: "C03", Clause: "C03.routes", Class: routesClass(RoutesOf(r), ModelRoutes(t)), Config: cfg.Router.String(), History: hs,
				Probe: "Routes()", Observed: got, Expected: want})
		}
		after, n := c03Probe(r, t, paths, hs, cfg.Router.String(), "C03", &c.Viols, outc)
		c.Probes = n + 1
		// frame condition: model answer unchanged ⇒ implementation answer unchanged
		for i := range after.obs {
			if before.exp[i].String() != after.exp[i].String() {
				continue
			}
			// between equally ranked live candidates the property leaves the winner open and states the frame for
			// removals only: a registration may re-order them (the tree sorts siblings when a child is added)
			if op.K == "handle" && len(after.exp[i].Outcomes) > 1 {
				continue
			}
			// the handler-level expectation may also have changed (method added/removed)
			pi, mi := i/len(c03Methods), i%len(c03Methods)
			q := hv.Req{Method: c03Methods[mi], Path: paths[pi]}
			if modelHandler(pt, q, before.exp[i]) != modelHandler(t, q, after.exp[i]) {
				continue
			}
			if b, a := frameSummary(before.obs[i]), frameSummary(after.obs[i]); a != b {
				c.Viols = append(c.Viols, explore.Violation{Property: "C03", Clause: "C03.frame", Class: "frame-broken", Config: cfg.Router.String(), History: hs,
					Probe: q.String(), Observed: "before: " + b + " ; after: " + a, Expected: "unchanged by " + op.String()})
				break
			}
		}
		c.Key = explore.Key(r) + "|" + t.String()
		c.Outcomes = keys(outc)
		if len(in.History) < 1 && k < 3 {
			c.Sample = map[string]any{"history": hs, "routes": got, "probes": c.Probes}
		}
		kids = append(kids, c)
	}
	return kids, nil
}

// frameSummary is what the frame condition compares: the handling of a request up to the middleware wrappers
// (Use legitimately re-wraps every handler).
func frameSummary(o *hv.Obs) string {
	if o.Paniced {
		return fmt.Sprintf("PANIC(%v)", o.Panic)
	}
	allow := ""
	if o.Header != nil {
		allow = o.Header.Get("Allow")
	}
	return fmt.Sprintf("st=%d core=%s pat=%q node.allow=%q hdr.allow=%q ps=%s", o.Status, o.CoreID, o.Pattern, o.Allow, allow, hv.ParamsString(o.Params))
}

// modelHandler is the handler the model predicts when the admissible set is a singleton.
func modelHandler(t *ref.Table, q hv.Req, e Expect) string {
	if e.NotFound {
		return "404"
	}
	var hs []string
	for _, o := range e.Outcomes {
		r := t.Routes[o.Pattern]
		if r == nil {
			hs = append(hs, "?")
			continue
		}
		allow := "@" + strings.Join(t.Allow(o.Pattern), ",")
		switch {
		case q.Method == "HEAD" && r.Methods["GET"] != "":
			hs = append(hs, r.Methods["GET"]+allow)
		case q.Method == "OPTIONS":
			hs = append(hs, "OPT"+allow)
		case r.Methods[q.Method] != "" && q.Method != "HEAD":
			hs = append(hs, r.Methods[q.Method]+allow)
		default:
			hs = append(hs, "405"+allow)
		}
	}
	return strings.Join(hs, "|")
}

func routesClass(got, want map[string][]string) string {
	for k := range got {
		if _, ok := want[k]; !ok {
			return "routes-lists-dead-pattern"
		}
	}
	for k := range want {
		if _, ok := got[k]; !ok {
			return "routes-misses-live-pattern"
		}
	}
	for k, w := range want {
		g := strings.Join(got[k], ",")
		ws := strings.Join(w, ",")
		if g != ws {
			return "routes-methods-differ:" + diffSets(got[k], w)
		}
	}
	return "routes-mismatch"
}

func diffSets(got, want []string) string {
	g, w := map[string]bool{}, map[string]bool{}
	for _, x := range got {
		g[x] = true
	}
	for _, x := range want {
		w[x] = true
	}
	var d []string
	for _, x := range want {
		if !g[x] {
			d = append(d, "-"+x)
		}
	}
	for _, x := range got {
		if !w[x] {
			d = append(d, "+"+x)
		}
	}
	return strings.Join(d, "")
}

func keys(m map[string]struct{}) []string {
	ks := make([]string, 0, len(m))
	for k := range m {
		ks = append(ks, k)
	}
	return ks
}

func init() {
	explore.RegisterJob("c03/expand", c03Expand)
	explore.Register(&explore.Check{ID: "C03", Run: func(rc *explore.RunCtx) {
		depth := 3
		if !rc.Quick() {
			depth = 5
		}
		rc.Assume = append(rc.Assume,
			"histories over the C03 alphabet (DESIGN 4/C03) up to the stated depth, from every reachable deduplicated implementation state",
			"probe set: witness paths of all pool patterns (live or not) plus first-byte variants, 6 methods",
			"frame law on every ordered pair of patterns built from <=2 of 20 unusual tokens (empty rule, braces inside a rule, '-' flag, multi-byte literals): an accepted second registration leaves every path the first route served still served, and the first route serves no path it did not serve alone",
			"state merge is sound because the key is a full reflective dump of the router object graph plus the model table")
		rc.Set("alphabet_size", len(c03Alphabet()))
		rc.Set("depth_bound", depth)
		for _, cfg := range []RouterCfg{{}, {Trace: true}} {
			explore.BFS(rc, "c03/expand", c03Cfg{Router: cfg}, depth, true, "C03 "+cfg.String())
		}
		// the other options must not change the life cycle: the lock (sequentially: every path has to release it),
		// and an interceptor set that turns the \d+ rule of the pool into an interceptor
		for _, cfg := range []RouterCfg{{Lock: true}, {IC: "I2"}} {
			explore.BFS(rc, "c03/expand", c03Cfg{Router: cfg}, depth-1, true, "C03 "+cfg.String())
		}
		// family 1: literal text after a parameter split between two routes, then one of them removed again
		explore.BFS(rc, "c03/expand", c03Cfg{Router: RouterCfg{}, Family: 1}, depth+1, true, "C03 split literal suffix")
		// family 2: equally ranked parameter siblings that match the same paths, one of them restructured by removals
		explore.BFS(rc, "c03/expand", c03Cfg{Router: RouterCfg{}, Family: 2}, depth+2, true, "C03 overlapping parameter siblings")
		// frame law over unusual pattern spellings (the reference tokenizer has no opinion on them, the law needs none):
		// an accepted second registration takes no path away from the first route and gives it no new one
		var xitems []exoticItem
		for _, p := range c17ExoticPool() {
			xitems = append(xitems, exoticItem{Prop: "C03", First: p})
		}
		explore.ParMap(rc, "c17/exotic", xitems, func(i int, in exoticItem, o pairOut) {
			rc.Add("exotic_pairs", o.Pairs)
			rc.Add("transitions", o.Pairs)
			for _, v := range o.Viols {
				rc.Report(v)
			}
		})
		// no-dedup pass: every history literally enumerated
		nd := 2
		rc.Set("nodedup_depth", nd)
		explore.BFS(rc, "c03/expand", c03Cfg{Router: RouterCfg{}}, nd, false, "C03 no-dedup")
	}})
}
