package props

import (
	"encoding/json"
	"fmt"
	"sort"
	"strings"

	"github.com/issue9/mux/v9"

	"verifharness/explore"
	"verifharness/hv"
	"verifharness/ref"
)

// ---- C10: reverse URL building ----

var c10Values = []string{"", "1", "12", "a", "abc5", "5abc", "1/b", "100%", "é", "\xff", "{x}", "%d%s"} // '%': values are text, never a format

// c10Extra: names that start with more than one '-' (one is the flag, the rest is the name) and literal text with '%'
var c10Extra = []string{"/a/{--x}/b", "/a/{x}/{--x}", "/p/{--x:digit}/c", "/q/{x}%7C{y}", "/q/{x}%d",
	// a route ten nodes deep; a pattern only a router with interceptors can read (the name is no regexp group name)
	"/1/{a}/2/{b}/3/{c}/4/{d}/5/{e}/6/{f}/7/{g}/8/{h}/9/{i}/10", "/p/{u-id:digit}/c"}

// one malformed pattern per documented error class and per combination of parameter kinds
var c10Malformed = func() []string {
	kinds := []string{"", ":\\d+", ":digit"} // named, regexp, (interceptor under I1/I2; a regexp under I0)
	out := []string{"/a/{}", "/a/{:\\d+}", "/a/{:digit}", "/{-}/a", "/{-:\\d+}", "/a/{x:(}", "/a/{x:[}/b", "/a/{x:*}", "/a/{x:a)|(b}", "/a/{x}/{y:(}"}
	for _, k1 := range kinds {
		for _, k2 := range kinds {
			out = append(out, "/a/{x"+k1+"}{y"+k2+"}", "/a/{x"+k1+"}{y"+k2+"}/b", "/a/{x"+k1+"}/{x"+k2+"}", "/a/{x"+k1+"}/{-x"+k2+"}", "/{-x"+k1+"}/b/{x"+k2+"}")
		}
	}
	return out
}()

type c10Item struct {
	IC      string `json:"ic"`
	Pattern string `json:"pattern"`
	Only    string `json:"only,omitempty"` // replay: only the case with this label
}

func paramsLabel(m map[string]string) string {
	if m == nil {
		return "nil"
	}
	return hv.ParamsString(m)
}

// allMaps enumerates every map over keys with each key absent or bound to a value.
func allMaps(keys []string, vals []string, f func(map[string]string)) {
	m := map[string]string{}
	var rec func(i int)
	rec = func(i int) {
		if i == len(keys) {
			c := make(map[string]string, len(m))
			for k, v := range m {
				c[k] = v
			}
			f(c)
			return
		}
		rec(i + 1) // absent
		for _, v := range vals {
			m[keys[i]] = v
			rec(i + 1)
		}
		delete(m, keys[i])
	}
	rec(0)
}

func c10Job(raw json.RawMessage) (any, error) {
	var it c10Item
	if err := json.Unmarshal(raw, &it); err != nil {
		return nil, err
	}
	out := &simpleOut{}
	outc := map[string]struct{}{}
	ic := Interceptors(it.IC)
	pp, perr := ref.Parse(it.Pattern, ic)
	p0, perr0 := ref.Parse(it.Pattern, ref.Interceptors{}) // what mux.URL (no interceptors) sees
	rep := func(clause, class, label, obs, exp string) {
		if it.Only != "" && it.Only != label {
			return
		}
		out.Viols = append(out.Viols, explore.Violation{Property: "C10", Clause: clause, Class: class, Config: "interceptors=" + it.IC, History: []string{"pattern " + it.Pattern}, Probe: label, Observed: obs, Expected: exp,
			// the replay recipe is the whole work item (all URL calls for this pattern, in order): what an earlier call
			// leaves behind in process-wide state is part of how a later one fails
			Replay: explore.ItemReplay("c10/pattern", c10Item{IC: it.IC, Pattern: it.Pattern})})
	}
	res := func(s string, err error, pv any, bad bool) string {
		if bad {
			return fmt.Sprintf("panic(%v)", pv)
		}
		if err != nil {
			return "error"
		}
		return fmt.Sprintf("%q", s)
	}
	var names []string
	if perr0 == nil {
		names = p0.AllNames()
	} else {
		names = []string{"x", "y"}
	}
	keysAll := append(append([]string{}, names...), "extra")
	vals := append([]string{}, c10Values...)
	// values derived from the pattern: an accepted value followed by the literal text that follows the
	// parameter (and more) - what an unanchored or prefix-only validation would let through
	if perr == nil {
		seenV := map[string]bool{}
		for _, v := range vals {
			seenV[v] = true
		}
		for i := range pp.Tokens {
			t := &pp.Tokens[i]
			if t.Kind == ref.Lit || i+1 >= len(pp.Tokens) {
				continue
			}
			lit := pp.Tokens[i+1].Text
			for _, d := range []string{simpleValue(t) + lit, simpleValue(t) + lit + "zz", simpleValue(t) + lit[:1]} {
				if !seenV[d] {
					seenV[d] = true
					vals = append(vals, d)
				}
			}
		}
	}
	if len(names) >= 2 {
		vals = append(append([]string{}, vals[:8]...), vals[len(c10Values):]...)
	}
	if len(names) >= 3 {
		vals = vals[:4]
	}
	// a value that is itself the token text of a parameter of this pattern: substitution replaces tokens of the
	// pattern, never text that came in as a value
	if perr == nil && len(names) >= 2 {
		for i := range pp.Tokens {
			if t := &pp.Tokens[i]; t.Kind != ref.Lit {
				vals = append(vals, t.Text)
			}
		}
	}

	if len(names) >= 6 {
		vals = []string{"1"} // a deep pattern: every key absent or bound
	}
	// a pattern that only a router with interceptors can read: the package-level table behind the non-strict mode takes
	// the rule for a regexp and then refuses the name (DESIGN section 6); only the strict mode is compared for it
	strictOnly := it.Pattern == "/p/{u-id:digit}/c"

	// routers for the strict mode: pattern live / not live / only a structural prefix / removed again
	type rt struct {
		name string
		r    *Router
		live bool
	}
	mk := func(domain string) *Router {
		var o []mux.Option
		if domain != "" {
			o = append(o, mux.WithURLDomain(domain))
		}
		return NewRouter(RouterCfg{IC: it.IC}, o...)
	}
	var routers []rt
	setupURL := func(r *Router, strict bool, ps map[string]string) {
		if pv, bad := Guard(func() { r.URL(strict, it.Pattern, ps) }); bad {
			rep("C10.no-panic", "panic:"+shortPanic(pv), fmt.Sprintf("URL(strict=%v) while building the histories, params=%s", strict, paramsLabel(ps)), fmt.Sprintf("panic(%v)", pv), "a string or an error")
		}
	}
	if perr == nil {
		live := mk("")
		if _, bad := Guard(func() { live.Handle(it.Pattern, hv.Route("h"), nil, "GET") }); !bad {
			routers = append(routers, rt{"live", live, true})
			removed := mk("")
			removed.Handle(it.Pattern, hv.Route("h"), nil, "GET")
			removed.Handle(it.Pattern+"/zz", hv.Route("h2"), nil, "GET")
			removed.Remove(it.Pattern)
			routers = append(routers, rt{"removed-again(+longer route below)", removed, false})
			removedByName := mk("")
			removedByName.Handle(it.Pattern, hv.Route("h"), nil, "GET", "POST")
			removedByName.Handle(it.Pattern+"/zz", hv.Route("h2"), nil, "GET")
			removedByName.Remove(it.Pattern, "GET")
			removedByName.Remove(it.Pattern, "POST", "HEAD")
			routers = append(routers, rt{"methods-removed-by-name(+longer route below)", removedByName, false})
			structural := mk("")
			if _, bad := Guard(func() {
				structural.Handle(it.Pattern+"/q1", hv.Route("h1"), nil, "GET")
				structural.Handle(it.Pattern+"/q2", hv.Route("h2"), nil, "GET")
			}); !bad {
				routers = append(routers, rt{"structural-prefix-only", structural, false})
			}
			// histories in which URL building itself comes before the table changes (nothing may be remembered)
			any := map[string]string{"x": "1", "y": "1", "z": "1", "xy": "1"}
			urlThenRemoved := mk("")
			urlThenRemoved.Handle(it.Pattern, hv.Route("h"), nil, "GET")
			setupURL(urlThenRemoved, true, any)
			setupURL(urlThenRemoved, true, nil)
			urlThenRemoved.Remove(it.Pattern)
			routers = append(routers, rt{"strict-URL-then-removed", urlThenRemoved, false})
			urlThenCleaned := mk("")
			urlThenCleaned.Handle(it.Pattern, hv.Route("h"), nil, "GET")
			setupURL(urlThenCleaned, true, any)
			urlThenCleaned.Clean()
			routers = append(routers, rt{"strict-URL-then-cleaned", urlThenCleaned, false})
			urlThenAdded := mk("")
			setupURL(urlThenAdded, true, any)
			setupURL(urlThenAdded, false, any)
			urlThenAdded.Handle(it.Pattern, hv.Route("h"), nil, "GET")
			routers = append(routers, rt{"strict-URL-then-registered", urlThenAdded, true})
			dom := mk("https://h/")
			dom.Handle(it.Pattern, hv.Route("h"), nil, "GET")
			routers = append(routers, rt{"live+domain", dom, true})
		}
	}
	routers = append(routers, rt{"empty-router", mk(""), false})
	domRouter := mk("https://h")
	domRouter2 := mk("file:///") // exactly one trailing slash is dropped from the configured domain

	// without parameters the facades are still shorthand: whatever Router.URL answers for the concatenated pattern
	// (with the URL domain in front), Prefix.URL and Resource.URL answer the same
	for _, d := range []struct {
		name string
		r    *Router
	}{{"router", routers[len(routers)-1].r}, {"router+domain", domRouter}} {
		for _, strict := range []bool{false, true} {
			for _, ps := range []map[string]string{nil, {}} {
				var s string
				var err error
				pv, bad := Guard(func() { s, err = d.r.URL(strict, it.Pattern, ps) })
				base := res(s, err, pv, bad)
				label := fmt.Sprintf("%s strict=%v params=%v(nil=%v)", d.name, strict, ps, ps == nil)
				for _, cut := range []int{0, len(it.Pattern) / 2, len(it.Pattern)} {
					pre, post := it.Pattern[:cut], it.Pattern[cut:]
					pv, bad = Guard(func() { s, err = d.r.Prefix(pre).URL(strict, post, ps) })
					out.Evals++
					if got := res(s, err, pv, bad); got != base {
						rep("C10.facade", "prefix-url-differs:no-params", fmt.Sprintf("Prefix(%q).URL(%q) %s", pre, post, label), got, "as Router.URL: "+base)
					}
				}
				pv, bad = Guard(func() { s, err = d.r.Resource(it.Pattern).URL(strict, ps) })
				out.Evals++
				if got := res(s, err, pv, bad); got != base {
					rep("C10.facade", "resource-url-differs:no-params", "Resource.URL "+label, got, "as Router.URL: "+base)
				}
			}
		}
	}

	allMaps(keysAll, vals, func(ps map[string]string) {
		label := "params=" + paramsLabel(ps)
		// expected non-strict result (params non-empty)
		want := "error"
		if perr0 == nil {
			if s, ok := p0.Instantiate(ps); ok {
				want = fmt.Sprintf("%q", s)
			}
		}
		if len(ps) > 0 && !strictOnly {
			// mux.URL
			var s string
			var err error
			pv, bad := Guard(func() { s, err = mux.URL(it.Pattern, ps) })
			out.Evals++
			got := res(s, err, pv, bad)
			outc["nonstrict/"+fmt.Sprint(got == "error")] = struct{}{}
			if got != want {
				rep("C10.substitute", classify10(got, want), "mux.URL "+label, got, want)
			}
			// Router.URL(false) with and without domain; Prefix and Resource facades
			for _, d := range []struct {
				name, dom string
				r         *Router
			}{{"Router.URL(false)", "", routers[len(routers)-1].r}, {"Router.URL(false)+domain", "https://h", domRouter}, {"Router.URL(false)+domain(file:///)", "file://", domRouter2}} {
				wantD := want
				if want != "error" {
					wantD = fmt.Sprintf("%q", d.dom+strings.Trim(want, `"`))
					if uq, e := unq(want); e == nil {
						wantD = fmt.Sprintf("%q", d.dom+uq)
					}
				}
				pv, bad := Guard(func() { s, err = d.r.URL(false, it.Pattern, ps) })
				out.Evals++
				if got := res(s, err, pv, bad); got != wantD {
					rep("C10.substitute", classify10(got, wantD), d.name+" "+label, got, wantD)
				}
				// facades: split the pattern text at every position
				for _, cut := range []int{0, len(it.Pattern) / 2, len(it.Pattern)} {
					pre, post := it.Pattern[:cut], it.Pattern[cut:]
					pv, bad = Guard(func() { s, err = d.r.Prefix(pre).URL(false, post, ps) })
					out.Evals++
					if got := res(s, err, pv, bad); got != wantD && !(it.Pattern == "" || post == "" && false) {
						rep("C10.facade", "prefix-url-differs", fmt.Sprintf("%s via Prefix(%q).URL(%q) %s", d.name, pre, post, label), got, wantD)
					}
				}
				// a prefix whose text the sub-pattern happens to repeat: Prefix(/a).URL(/a/{x}) is /a/a/{x}
				if perr0 == nil && p0.Tokens[0].Kind == ref.Lit && len(p0.Tokens[0].Text) > 1 {
					pre := p0.Tokens[0].Text
					if pre[len(pre)-1] == '/' {
						pre = pre[:len(pre)-1]
					}
					wantR := "error"
					if pr, e := ref.Parse(pre+it.Pattern, ref.Interceptors{}); e == nil {
						if x, ok := pr.Instantiate(ps); ok {
							wantR = fmt.Sprintf("%q", d.dom+x)
						}
					}
					pv, bad = Guard(func() { s, err = d.r.Prefix(pre).URL(false, it.Pattern, ps) })
					out.Evals++
					if got := res(s, err, pv, bad); got != wantR {
						rep("C10.facade", "prefix-url-differs:repeated-prefix", fmt.Sprintf("%s via Prefix(%q).URL(%q) %s", d.name, pre, it.Pattern, label), got, wantR)
					}
				}
				pv, bad = Guard(func() { s, err = d.r.Resource(it.Pattern).URL(false, ps) })
				out.Evals++
				if got := res(s, err, pv, bad); got != wantD {
					rep("C10.facade", "resource-url-differs", d.name+" via Resource.URL "+label, got, wantD)
				}
			}
		}
		// strict
		for _, x := range routers {
			wantS := "error"
			if x.live && perr == nil {
				ok := true
				for i := range pp.Tokens {
					t := &pp.Tokens[i]
					if t.Kind == ref.Lit {
						continue
					}
					v, has := ps[t.Name]
					if !has || !t.Accepts(v) {
						ok = false
					}
				}
				if ok {
					s, _ := pp.Instantiate(ps)
					if strings.Contains(x.name, "domain") {
						s = "https://h" + s
					}
					wantS = fmt.Sprintf("%q", s)
				}
			}
			var s string
			var err error
			pv, bad := Guard(func() { s, err = x.r.URL(true, it.Pattern, ps) })
			out.Evals++
			got := res(s, err, pv, bad)
			outc["strict/"+x.name+"/"+fmt.Sprint(got == "error")] = struct{}{}
			if got != wantS {
				class := "strict-accepts-invalid"
				switch {
				case bad:
					class = "panic"
				case got == "error":
					class = "strict-rejects-valid"
				case wantS != "error":
					class = "strict-wrong-result"
				case !x.live && x.name == "structural-prefix-only":
					class = "strict-structural-node-accepted"
				case !x.live:
					class = "strict-not-live-accepted"
				case len(ps) == 0:
					class = "strict-empty-params-unchecked"
				default:
					class = "strict-constraint-unchecked:" + badKinds(pp, ps)
				}
				rep("C10.strict", class, "Router.URL(true) on "+x.name+" "+label, got, wantS)
			}
		}
	})
	out.Sample = map[string]any{"pattern": it.Pattern, "ic": it.IC, "cases": out.Evals}
	out.Viols = smallestPerSig(out.Viols)
	out.Outcomes = keys(outc)
	return out, nil
}

func unq(s string) (string, error) {
	var out string
	_, err := fmt.Sscanf(s, "%q", &out)
	return out, err
}

func classify10(got, want string) string {
	switch {
	case strings.HasPrefix(got, "panic"):
		return "panic"
	case want == "error":
		return "accepted-malformed-or-missing"
	case got == "error":
		return "rejected-well-formed"
	}
	return "wrong-substitution"
}

func badKinds(p *ref.Pattern, ps map[string]string) string {
	set := map[string]bool{}
	for i := range p.Tokens {
		t := &p.Tokens[i]
		if t.Kind == ref.Lit {
			continue
		}
		if v, ok := ps[t.Name]; !ok {
			set["missing"] = true
		} else if !t.Accepts(v) {
			set[t.Kind.String()] = true
		}
	}
	var ks []string
	for k := range set {
		ks = append(ks, k)
	}
	sort.Strings(ks)
	return strings.Join(ks, "+")
}

// ---- round trip over dispatch ----

func c10RoundTrip(raw json.RawMessage) (any, error) {
	var it tableItem
	if err := json.Unmarshal(raw, &it); err != nil {
		return nil, err
	}
	out := &simpleOut{}
	outc := map[string]struct{}{}
	ic := Interceptors(it.Router.IC)
	first := it.Pool[it.First]
	for _, second := range it.Pool {
		pats := []string{first}
		if second != first {
			pats = append(pats, second)
		}
		mt := ref.NewTable(ic, false)
		okT := true
		for _, p := range pats {
			if v, _ := mt.Judge(p, []string{"GET"}); v != ref.Accept {
				okT = false
				break
			}
			mt.Handle(p, "", nil, "GET")
		}
		if !okT {
			continue
		}
		if it.Only != nil && !(len(it.Only) == 2 && it.Pool[it.Only[1]] == second) {
			continue
		}
		r, t, perr := buildTable(it.Router, pats, false)
		if perr != "" {
			continue
		}
		for _, path := range probeSet(t.Parsed(), it.MaxLen) {
			o := hv.Serve(r, hv.Req{Method: "GET", Path: path})
			if o.Paniced || o.Kind != "route" {
				continue
			}
			rt := t.Routes[o.Pattern]
			if rt == nil || rt.P.HasIgnored() {
				continue
			}
			for _, strict := range []bool{false, true} {
				s, err := r.URL(strict, o.Pattern, o.Params)
				out.Evals++
				got := fmt.Sprintf("%q", s)
				if err != nil {
					got = "error: " + err.Error()
				}
				outc[fmt.Sprintf("%v/%v", strict, err == nil)] = struct{}{}
				if err != nil || s != path {
					idx := []int{it.First, indexOf(it.Pool, second)}
					narrowed := it
					narrowed.Only = idx
					out.Viols = append(out.Viols, explore.Violation{Property: "C10", Clause: "C10.roundtrip", Class: fmt.Sprintf("roundtrip(strict=%v)", strict), Config: it.Router.String(), History: pats,
						Probe: fmt.Sprintf("GET %q dispatched to %s with %s; URL(strict=%v)", path, o.Pattern, hv.ParamsString(o.Params), strict), Observed: got, Expected: fmt.Sprintf("%q", path),
						Replay: explore.ItemReplay("c10/roundtrip", narrowed)})
				}
			}
		}
		out.Viols = smallestPerSig(out.Viols)
	}
	out.Sample = map[string]any{"first": first, "roundtrips": out.Evals}
	out.Outcomes = keys(outc)
	return out, nil
}

func indexOf(l []string, s string) int {
	for i, x := range l {
		if x == s {
			return i
		}
	}
	return -1
}

func init() {
	explore.RegisterJob("c10/pattern", c10Job)
	explore.RegisterJob("c10/roundtrip", c10RoundTrip)
	explore.Register(&explore.Check{ID: "C10", Run: func(rc *explore.RunCtx) {
		rc.Assume = append(rc.Assume,
			"patterns: the dispatch pool under I0/I1/I2 plus one malformed pattern per documented error class (empty name, adjacent parameters, duplicate names incl. '-' variants, uncompilable regexp)",
			"params: every map over the pattern's names plus one extra key, each key absent or bound to one of {\"\", 1, 12, a, abc5, 5abc, 1/b, 100%, é, 0xff, {x}, %d%s} (value set shrinks with 2+ names); extra patterns with names starting with two '-' and literal text containing '%'; a URL domain with several trailing slashes (file:///)",
			"entry points: mux.URL, Router.URL strict/non-strict with WithURLDomain \"\"/https://h/https://h/, Prefix.URL at three cut positions, Resource.URL; strict mode on routers where the pattern is live, removed again, only a structural prefix, or absent",
			"round trip: every (path, route, params) triple produced by dispatching the C01 probe set on all tables of <=2 patterns is fed back through URL (strict and not) for routes without '-' parameters")
		var items []c10Item
		for _, icn := range []string{"", "I1", "I2"} {
			pool := append([]string{}, poolD(icn, rc.Tier)...)
			pool = append(pool, c10Malformed...)
			pool = append(pool, c10Extra...)
			for _, p := range pool {
				items = append(items, c10Item{IC: icn, Pattern: p})
			}
		}
		explore.ParMapFresh(rc, "c10/pattern", items, func(i int, in c10Item, o simpleOut) { mergeSimple(rc, o, "url_cases") })
		var rt []tableItem
		for _, icn := range []string{"", "I1"} {
			pool := poolD(icn, "quick")
			for i := range pool {
				rt = append(rt, tableItem{Router: RouterCfg{IC: icn}, First: i, Pool: pool, MaxLen: 4})
			}
		}
		explore.ParMap(rc, "c10/roundtrip", rt, func(i int, in tableItem, o simpleOut) { mergeSimple(rc, o, "roundtrips") })
	}})
}
