package props

import (
	"encoding/json"
	"fmt"
	"mime"
	"net/http"
	"sort"
	"strings"

	"github.com/issue9/mux/v9"
	"github.com/issue9/mux/v9/types"

	"verifharness/explore"
	"verifharness/hv"
	"verifharness/ref"
)

// ---- C13: Group dispatch ----

// mspec describes a matcher; it builds both the real matcher and the reference.
type mspec struct {
	K    string   `json:"k"` // nil hosts pv hv and or
	Args []string `json:"args,omitempty"`
	Sub  []mspec  `json:"sub,omitempty"`
}

func (m mspec) String() string {
	switch m.K {
	case "nil":
		return "nil"
	case "hosts":
		return "Hosts(" + strings.Join(m.Args, ",") + ")"
	case "pv":
		return "PathVersion(" + strings.Join(m.Args, ",") + ")"
	case "hv":
		return "HeaderVersion(" + strings.Join(m.Args, ",") + ")"
	case "dirty":
		return "MatcherFunc(sets dirty=1, rejects)"
	}
	var s []string
	for _, x := range m.Sub {
		s = append(s, x.String())
	}
	return map[string]string{"and": "And", "or": "Or", "andf": "AndFunc", "orf": "OrFunc"}[m.K] + "(" + strings.Join(s, ", ") + ")"
}

func (m mspec) build() mux.Matcher {
	switch m.K {
	case "nil":
		return nil
	case "hosts":
		return mux.NewHosts(false, m.Args...)
	case "pv":
		return mux.NewPathVersion(m.Args[0], append([]string{}, m.Args[1:]...)...)
	case "hv":
		return mux.NewHeaderVersion(m.Args[0], m.Args[1], func(error) {}, m.Args[2:]...)
	case "dirty": // a user-written matcher that has written a parameter by the time it decides to reject
		return mux.MatcherFunc(func(_ *http.Request, ctx *types.Context) bool { ctx.Set("dirty", "1"); return false })
	}
	var sub []mux.Matcher
	for _, x := range m.Sub {
		sub = append(sub, x.build())
	}
	switch m.K {
	case "and":
		return mux.AndMatcher(sub...)
	case "andf", "orf": // the func-flavoured entry points: the same combinations, by contract
		var fs []func(*http.Request, *types.Context) bool
		for _, x := range sub {
			fs = append(fs, x.Match)
		}
		if m.K == "andf" {
			return mux.AndMatcherFunc(fs...)
		}
		return mux.OrMatcherFunc(fs...)
	}
	return mux.OrMatcher(sub...)
}

// greq is the reference's view of a request.
type greq struct {
	host, path, accept string
	hasAccept          bool
	params             map[string]string
}

func (g greq) clone() greq {
	c := g
	c.params = map[string]string{}
	for k, v := range g.params {
		c.params[k] = v
	}
	return c
}

// eval is the pure reference matcher: it returns the request as the matcher leaves it.
func (m mspec) eval(g greq) (greq, bool) {
	switch m.K {
	case "nil":
		return g, true
	case "hosts":
		var pats []*ref.Pattern
		for _, d := range m.Args {
			pats = append(pats, ref.MustParse(strings.ToLower(d), ref.Interceptors{}))
		}
		nh := normaliseHost(g.host)
		outs := ref.Resolve(pats, nh)
		if len(outs) == 0 || nh == "" || nh == "*" {
			return g, false
		}
		n := g.clone()
		for k, v := range outs[0].Params {
			n.params[k] = v
		}
		return n, true
	case "pv":
		for _, v := range m.Args[1:] {
			nv := normVersion(v)
			if strings.HasPrefix(g.path, nv) {
				n := g.clone()
				n.path = g.path[len(nv)-1:]
				if m.Args[0] != "" {
					n.params[m.Args[0]] = nv[:len(nv)-1]
				}
				return n, true
			}
		}
		return g, false
	case "hv":
		if !g.hasAccept || g.accept == "" {
			return g, false
		}
		key := m.Args[1]
		if key == "" {
			key = "version"
		}
		_, ps, err := mime.ParseMediaType(g.accept)
		if err != nil {
			return g, false
		}
		for _, v := range m.Args[2:] {
			if ps[key] == v {
				n := g.clone()
				if m.Args[0] != "" {
					n.params[m.Args[0]] = v
				}
				return n, true
			}
		}
		return g, false
	case "and", "andf":
		cur := g
		for _, x := range m.Sub {
			n, ok := x.eval(cur)
			if !ok {
				return g, false // effects of accepted members vanish
			}
			cur = n
		}
		return cur, true
	case "or", "orf":
		for _, x := range m.Sub {
			if n, ok := x.eval(g); ok {
				return n, true
			}
		}
		return g, false
	}
	return g, false
}

func c13Matchers() []mspec {
	pv1 := mspec{K: "pv", Args: []string{"v", "v1"}}
	pv2 := mspec{K: "pv", Args: []string{"v", "v2"}}
	ha := mspec{K: "hosts", Args: []string{"a.com"}}
	hb := mspec{K: "hosts", Args: []string{"b.com"}}
	hsub := mspec{K: "hosts", Args: []string{"{sub}.a.com"}}
	hv1 := mspec{K: "hv", Args: []string{"hv", "", "1"}}
	pv1e := mspec{K: "pv", Args: []string{"", "v1"}} // records no parameter: only the path changes
	return []mspec{
		{K: "nil"}, ha, hsub, pv1, pv2, hv1,
		{K: "and", Sub: []mspec{pv1, ha}},
		{K: "and", Sub: []mspec{ha, pv1}},
		{K: "or", Sub: []mspec{{K: "and", Sub: []mspec{pv1, ha}}, pv1}},
		{K: "or", Sub: []mspec{hb, pv2}},
		{K: "and", Sub: []mspec{hv1, hb}},
		{K: "and", Sub: []mspec{hsub, pv1, hv1}},
		{K: "and", Sub: []mspec{pv1e, ha}},
		{K: "or", Sub: []mspec{hv1, ha}}, // a rejecting first member must leave nothing behind for the second
		{K: "or", Sub: []mspec{hv1, pv1e}},
		{K: "dirty"},
		{K: "or"},  // no alternative: accepts nothing
		{K: "and"}, // no condition: accepts everything
		{K: "or", Sub: []mspec{ha}},
		{K: "and", Sub: []mspec{pv1}},
		// members writing the SAME parameter name: a rejected inner And must give the outer value back
		{K: "and", Sub: []mspec{{K: "hv", Args: []string{"v", "", "1"}}, {K: "or", Sub: []mspec{{K: "and", Sub: []mspec{pv1, ha}}, hb}}}},
		// an And entered with an empty context whose first member captures and whose second rejects, inside an Or whose
		// next member accepts without writing that parameter
		{K: "or", Sub: []mspec{{K: "and", Sub: []mspec{pv1, ha}}, hb}},
		// a matcher that captures the empty string under the name the router's own {sub:\\d+} uses (the version list has
		// the empty version: an Accept without the parameter)
		{K: "hv", Args: []string{"sub", "", "1", ""}},
		// the func-flavoured constructors
		{K: "andf", Sub: []mspec{pv1, ha}},
		{K: "orf", Sub: []mspec{{K: "andf", Sub: []mspec{pv1, ha}}, hb}},
	}
}

type gOp struct {
	K    string `json:"k"` // new | add | use | remove | dup
	M    int    `json:"m,omitempty"`
	Name string `json:"name,omitempty"`
}

type c13Item struct {
	Ops  []gOp  `json:"ops"`
	Only string `json:"only,omitempty"`
}

func (it c13Item) opStrings(ms []mspec) []string {
	var s []string
	for _, o := range it.Ops {
		switch o.K {
		case "new":
			s = append(s, fmt.Sprintf("%s := Group.New(%s)", o.Name, ms[o.M]))
		case "add":
			s = append(s, fmt.Sprintf("Group.Add(%s, NewRouter(%s))", ms[o.M], o.Name))
		case "use":
			s = append(s, "Group.Use(A)")
		case "remove":
			s = append(s, "Group.Remove("+o.Name+")")
		case "readd":
			s = append(s, fmt.Sprintf("Group.Add(%s, the removed router %s)", ms[o.M], o.Name))
		case "dup":
			s = append(s, "Group.New("+o.Name+") again (duplicate name)")
		case "dupadd":
			s = append(s, "Group.Add(Hosts(never.example), the router "+o.Name+" itself) again (duplicate name)")
		}
	}
	return s
}

type grouter struct {
	name string
	m    mspec
	live bool
	use  int // number of group Use middlewares it carries
}

func c13Job(raw json.RawMessage) (any, error) {
	var it c13Item
	if err := json.Unmarshal(raw, &it); err != nil {
		return nil, err
	}
	out := &simpleOut{}
	outc := map[string]struct{}{}
	ms := c13Matchers()
	hist := it.opStrings(ms)
	rep := func(clause, class, probe, obs, exp string) {
		if it.Only != "" && it.Only != probe {
			return
		}
		n := it
		n.Only = probe
		out.Viols = append(out.Viols, explore.Violation{Property: "C13", Clause: clause, Class: class, History: hist, Probe: probe, Observed: obs, Expected: exp, Replay: explore.ItemReplay("c13/group", n)})
	}
	g := newGroup()
	var model []*grouter
	objs := map[string]*Router{}
	guse := 0
	addRoutes := func(r *Router, name string) {
		r.Handle("/x", hv.Route("hx:"+name), nil, "GET")
		r.Handle("/{p}", hv.Route("hp:"+name), nil, "GET")
		// routes whose parameter has the name a matcher captures under ({sub}.a.com): trying and abandoning such a
		// branch must not cost the request the matcher's parameter
		r.Handle(`/{sub:\d+}/y/a`, hv.Route("hya:"+name), nil, "GET")
		r.Handle(`/{sub:\d+}/y/c`, hv.Route("hyc:"+name), nil, "GET")
		r.Handle("/{k}/y/b", hv.Route("hyb:"+name), nil, "GET")
	}
	for _, o := range it.Ops {
		switch o.K {
		case "new":
			r := g.New(o.Name, ms[o.M].build(), mux.WithTrace(hv.TraceH()))
			objs[o.Name] = r
			addRoutes(r, o.Name)
			model = append(model, &grouter{o.Name, ms[o.M], true, guse})
		case "add":
			r := NewRouter(RouterCfg{Name: o.Name, Trace: true})
			objs[o.Name] = r
			addRoutes(r, o.Name)
			g.Add(ms[o.M].build(), r)
			model = append(model, &grouter{o.Name, ms[o.M], true, guse})
		case "use":
			g.Use(hv.MW{Name: "A"})
			guse++
			for _, r := range model {
				if r.live {
					r.use++
				}
			}
		case "remove":
			g.Remove(o.Name)
			for _, r := range model {
				if r.name == o.Name {
					r.live = false
				}
			}
		case "readd":
			// the router object that was removed is added again, with another matcher: it goes to the end of the
			// list, answers to the new matcher only, and Add wraps it in the group's middlewares once more
			g.Add(ms[o.M].build(), objs[o.Name])
			for i, r := range model {
				if r.name == o.Name {
					model = append(append(append([]*grouter{}, model[:i]...), model[i+1:]...), &grouter{o.Name, ms[o.M], true, r.use + guse})
					break
				}
			}
		case "dupadd":
			// the router object that is already registered, offered again with another matcher
			var old *Router
			for _, r := range g.Routers() {
				if r.Name() == o.Name {
					old = r
				}
			}
			if old != nil {
				_, bad := Guard(func() { g.Add(mux.NewHosts(false, "never.example"), old) })
				out.Evals++
				if !bad {
					rep("C13.unique-names", "duplicate-name-accepted", "Group.Add("+o.Name+") again", "returned normally", "panic: the name is taken")
				}
			}
		case "dup":
			before := fmt.Sprint(len(g.Routers()))
			pv, bad := Guard(func() { g.New(o.Name, nil) })
			out.Evals++
			if !bad {
				rep("C13.unique-names", "duplicate-name-accepted", "Group.New("+o.Name+") twice", "returned normally", "panic: the name is taken")
			} else if PanicClass(pv) == "runtime.Error" {
				rep("C13.unique-names", "duplicate-name-runtime-fault", "Group.New("+o.Name+") twice", fmt.Sprintf("%v", pv), "panic with a message, not a runtime fault")
			}
			if after := fmt.Sprint(len(g.Routers())); after != before {
				rep("C13.unique-names", "duplicate-name-changed-group", "Group.New("+o.Name+") twice", after+" routers", before+" routers")
			}
		}
	}
	// the group's own view of its routers: names unique, in order, removed ones gone
	var wantNames []string
	for _, r := range model {
		if r.live {
			wantNames = append(wantNames, r.name)
		}
	}
	var gotNames []string
	for _, r := range g.Routers() {
		gotNames = append(gotNames, r.Name())
	}
	out.Evals++
	if strings.Join(gotNames, ",") != strings.Join(wantNames, ",") {
		rep("C13.unique-names", "routers-list-differs", "Group.Routers()", strings.Join(gotNames, ","), strings.Join(wantNames, ","))
	}
	for _, r := range model {
		if got := g.Router(r.name); (got != nil) != r.live {
			rep("C13.unique-names", "router-lookup-differs", "Group.Router("+r.name+")", fmt.Sprintf("found=%v", got != nil), fmt.Sprintf("found=%v", r.live))
		}
	}
	if rs := g.Routes(); len(rs) != len(wantNames) {
		rep("C13.unique-names", "routes-map-differs", "Group.Routes()", fmt.Sprintf("%d routers", len(rs)), fmt.Sprintf("%d routers", len(wantNames)))
	}
	table := ref.NewTable(nil, false)
	table.Handle("/x", "hx", nil, "GET")
	table.Handle("/{p}", "hp", nil, "GET")
	table.Handle(`/{sub:\d+}/y/a`, "hya", nil, "GET")
	table.Handle(`/{sub:\d+}/y/c`, "hyc", nil, "GET")
	table.Handle("/{k}/y/b", "hyb", nil, "GET")
	trail := func(n int) string { return strings.TrimSuffix(strings.Repeat("A,", n), ",") }
	// the Accept header only matters to groups that have a header-version matcher somewhere
	accepts := []string{"", "application/json;version=1"}
	for _, r := range model {
		if strings.Contains(r.m.String(), "HeaderVersion") {
			accepts = []string{"", "application/json;version=1", "application/json;version=2", ";;", "application/json"}
		}
	}
	for _, host := range []string{"a.com", "b.com", "s.a.com", "A.COM:80"} {
		for _, path := range []string{"/x", "/v1/x", "/v2/x", "/v1", "/v1/v1/x", "/zz", "zz" /* no route of any router: a 404 inside the winning router */, "/2/y/b", "/2/y/a"} {
			for _, acc := range accepts {
				for _, method := range []string{"GET", "POST", "OPTIONS", "GET+raw", "TRACE"} {
					q := hv.Req{Method: method, Path: path, Host: host}
					if method == "GET+raw" { // the target arrived percent-encoded: URL.RawPath carries the encoded form
						method = "GET"
						q.Method, q.RawPath = "GET", path[:len(path)-1]+fmt.Sprintf("%%%02X", path[len(path)-1]) // "/v1/x" arrives as "/v1/%78"
					}
					if acc != "" {
						q.Header = map[string]string{"Accept": acc}
					}
					probe := q.String()
					if it.Only != "" && it.Only != probe {
						continue
					}
					o := hv.Serve(g, q)
					out.Evals++
					// reference
					orig := greq{host: host, path: path, accept: acc, hasAccept: acc != "", params: map[string]string{}}
					var win *grouter
					var produced greq
					for _, r := range model {
						if !r.live {
							continue
						}
						if n, ok := r.m.eval(orig); ok {
							win, produced = r, n
							break
						}
					}
					var want string
					if win == nil {
						want = fmt.Sprintf("st=404 h=404 trail=%s router=%q path=%q ps={} route=%q", trail(guse), "", path, "")
					} else {
						e := ExpectFor(table, produced.path)
						ps := map[string]string{}
						for k, v := range produced.params {
							ps[k] = v
						}
						hid, st, route := "404", 404, ""
						if method == "TRACE" { // every router has a TRACE handler: any path, no route, the matcher's parameters only
							hid, st, route = "TRACE", 200, "<node with empty pattern>"
						} else if !e.NotFound {
							oc := e.Outcomes[0]
							route = oc.Pattern
							for k, v := range oc.Params {
								ps[k] = v
							}
							switch {
							case method == "GET":
								hid, st = map[string]string{"/x": "hx:", "/{p}": "hp:", `/{sub:\d+}/y/a`: "hya:", `/{sub:\d+}/y/c`: "hyc:", "/{k}/y/b": "hyb:"}[oc.Pattern]+win.name, 200
							case method == "OPTIONS":
								hid, st = "OPT", 200
							default:
								hid, st = "405", 405
							}
						} else {
							// a 404 inside the router reports no route parameters; the matcher's remain
						}
						want = fmt.Sprintf("st=%d h=%s trail=%s router=%q path=%q ps=%s route=%q", st, hid, trail(win.use), win.name, produced.path, hv.ParamsString(ps), route)
					}
					// route: the pattern of Route.Node() as the handler sees it ("" = no node: a 404 of the group or of a router)
					gotRoute := o.Pattern
					if !o.NodeNil && o.Pattern == "" {
						gotRoute = "<node with empty pattern>"
					}
					got := fmt.Sprintf("st=%d h=%s trail=%s router=%q path=%q ps=%s route=%q", o.Status, o.CoreID, strings.Join(o.Trail, ","), o.Router, o.Path, hv.ParamsString(o.Params), gotRoute)
					if o.Paniced {
						got = fmt.Sprintf("panic: %v", o.Panic)
					}
					outc[fmt.Sprintf("%d/%s/%s", o.Status, o.Router, o.Kind)] = struct{}{}
					if got != want {
						class := "wrong-answer"
						switch {
						case o.Paniced:
							class = "panic"
						case win != nil && o.Router == "" || win != nil && o.Router != win.name && routerAfter(model, win.name, o.Router):
							class = "reject-left-trace-or-skipped-first"
							if hasComposite(model) {
								class = "reject-left-path-rewritten"
							}
						case win != nil && o.Router != win.name:
							class = "order-not-first"
						case win == nil && o.Router != "":
							class = "dispatched-though-none-accepts"
							for _, r := range model {
								if !r.live && r.name == o.Router {
									class = "removed-still-dispatched"
								}
							}
						case win == nil:
							class = "notfound-middlewares"
						case !sameSuffix(got, want, "ps="):
							class = "params-differ"
						}
						rep("C13.dispatch", class, probe, got, want)
					}
					// a matcher that rejected (alone or inside a combination) leaves the whole request as it was: when no
					// accepted matcher changed the path, the handler sees the encoded path it was sent as well
					if !o.Paniced && (win == nil || produced.path == path) && o.RawPath != q.RawPath {
						rep("C13.dispatch", "reject-left-rawpath-rewritten", probe, fmt.Sprintf("handler sees URL.RawPath=%q", o.RawPath), fmt.Sprintf("URL.RawPath=%q as received", q.RawPath))
					}
				}
			}
		}
	}
	out.Viols = smallestPerSig(out.Viols)
	out.Outcomes = keys(outc)
	out.Sample = map[string]any{"group": hist, "requests": out.Evals}
	return out, nil
}

func routerAfter(model []*grouter, first, second string) bool {
	fi, si := -1, -1
	for i, r := range model {
		if r.name == first {
			fi = i
		}
		if r.name == second {
			si = i
		}
	}
	return si > fi || si < 0
}

func hasComposite(model []*grouter) bool {
	for _, r := range model {
		if len(r.m.K) >= 2 && (r.m.K[:2] == "an" || r.m.K[:2] == "or") {
			return true
		}
	}
	return false
}

func sameSuffix(a, b, marker string) bool {
	ia, ib := strings.Index(a, marker), strings.Index(b, marker)
	return ia >= 0 && ib >= 0 && a[ia:] == b[ib:]
}

func init() {
	explore.RegisterJob("c13/group", c13Job)
	explore.Register(&explore.Check{ID: "C13", Run: func(rc *explore.RunCtx) {
		ms := c13Matchers()
		rc.Assume = append(rc.Assume,
			"groups: every ordered list of <= 2 routers (quick; <= 3 thorough, and quick lists of 3 with a composite first or second) with matchers from {nil, Hosts(a.com), Hosts({sub}.a.com), PathVersion v1, PathVersion v2, HeaderVersion 1, And(PV1,Hosts a), And(Hosts a,PV1), Or(And(PV1,Hosts a),PV1), Or(Hosts b,PV2), And(HV1,Hosts b), And(Hosts {sub}.a,PV1,HV1), Or(And(PV1,Hosts a),Hosts b), AndMatcherFunc(PV1,Hosts a), OrMatcherFunc(AndMatcherFunc(PV1,Hosts a),Hosts b)}, built by New or Add, with Group.Use at every position, Remove of each router and a duplicate-name attempt",
			"requests: Host {a.com, b.com, s.a.com, A.COM:80} x path {/x, /v1/x, /v2/x, /v1, /v1/v1/x, /zz} x Accept {absent, version=1, version=2, garbage} x method {GET, POST, OPTIONS}",
			"reference: pure matchers evaluated on the request as originally received, And = sequential with effects vanishing on rejection, Or = first accepting member; the winner must answer as a stand-alone table model of that router does for the produced request, with the matcher's parameters added; no winner = group not-found with the group's Use trail and router name \"\"")
		var items []c13Item
		names := []string{"r1", "r2", "r3"}
		maxN := 2
		if !rc.Quick() {
			maxN = 3
		}
		var rec func(cur []int)
		emit := func(cur []int) {
			for variant := 0; variant < 4; variant++ {
				var ops []gOp
				for i, m := range cur {
					k := "new"
					if (variant == 1 || variant == 3) && i%2 == 1 {
						k = "add"
					}
					if variant >= 2 && i == 1 {
						ops = append(ops, gOp{K: "use"})
					}
					ops = append(ops, gOp{K: k, M: m, Name: names[i]})
				}
				if variant == 0 {
					ops = append(ops, gOp{K: "use"})
				}
				items = append(items, c13Item{Ops: ops})
				if variant == 0 {
					for i := range cur {
						rm := append(append([]gOp{}, ops...), gOp{K: "remove", Name: names[i]})
						items = append(items, c13Item{Ops: rm})
						// ... and added again under the nil matcher / under the matcher of the last router
						items = append(items, c13Item{Ops: append(append([]gOp{}, rm...), gOp{K: "readd", Name: names[i], M: 0})},
							c13Item{Ops: append(append([]gOp{}, rm...), gOp{K: "readd", Name: names[i], M: cur[len(cur)-1]})})
					}
					items = append(items, c13Item{Ops: append(append([]gOp{}, ops...), gOp{K: "dup", Name: names[0]})})
					items = append(items, c13Item{Ops: append(append([]gOp{}, ops...), gOp{K: "dupadd", Name: names[len(cur)-1]})})
				}
			}
		}
		rec = func(cur []int) {
			if len(cur) > 0 {
				emit(cur)
			}
			if len(cur) == maxN {
				if rc.Quick() && len(cur) == 2 {
					// triples whose first or second matcher is composite
					for m := range ms {
						if ms[cur[0]].K == "and" || ms[cur[0]].K == "or" || ms[cur[1]].K == "and" || ms[cur[1]].K == "or" || ms[cur[0]].K == "andf" {
							emit(append(append([]int{}, cur...), m))
						}
					}
				}
				return
			}
			for m := range ms {
				rec(append(append([]int{}, cur...), m))
			}
		}
		rec(nil)
		items = append(items, c13Item{}) // the empty group
		sort.SliceStable(items, func(i, j int) bool { return len(items[i].Ops) < len(items[j].Ops) })
		rc.Set("groups", len(items))
		explore.ParMap(rc, "c13/group", items, func(i int, in c13Item, o simpleOut) { mergeSimple(rc, o, "requests") })
	}})
}

var _ = json.Marshal
