package props

import (
	"fmt"
	"strings"

	"verifharness/explore"
	"verifharness/hv"
	"verifharness/ref"
)

// ---- C04: Allow headers and method sets at every moment ----

var c04Pool = []string{"/posts/author", "/posts/abc", "/posts", "/p/{x}", "/p/{x}/y"}

func c04Alphabet() []Op {
	var ops []Op
	for _, p := range c04Pool {
		for _, m := range []string{"GET", "POST", "PUT"} {
			ops = append(ops, Op{K: "handle", P: p, Ms: []string{m}})
		}
	}
	for _, p := range c04Pool {
		ops = append(ops, Op{K: "handle", P: p, Ms: []string{"GET", "POST"}})
		ops = append(ops, Op{K: "handle", P: p}) // Any
	}
	for _, p := range c04Pool {
		ops = append(ops, Op{K: "remove", P: p})
		ops = append(ops, Op{K: "remove", P: p, Ms: []string{"GET"}})
		ops = append(ops, Op{K: "remove", P: p, Ms: []string{"POST"}})
	}
	ops = append(ops,
		Op{K: "remove", P: "/posts/author", Ms: []string{"PATCH"}},
		Op{K: "remove", P: "/p/{x}", Ms: []string{"PATCH"}},
		Op{K: "remove", P: "/posts", Ms: []string{"OPTIONS"}},
		Op{K: "remove", P: "/posts", Ms: []string{"HEAD"}},
		Op{K: "remove", P: "/posts", Ms: []string{"GET", "POST"}},
		// reserved names in the middle of a list are skipped, the rest of the list still counts
		Op{K: "remove", P: "/posts", Ms: []string{"HEAD", "GET"}},
		Op{K: "remove", P: "/posts", Ms: []string{"POST", "", "OPTIONS", "GET"}},
		// a list made of names the router does not know at all: nothing is removed (an empty list means "everything"
		// only when the caller gave none)
		Op{K: "remove", P: "/posts", Ms: []string{"PURGE"}},
		Op{K: "remove", P: "/posts", Ms: []string{"get", ""}},
		Op{K: "handle", P: "/posts", Ms: []string{"TRACE"}}, // only enabled without WithTrace
		Op{K: "remove", P: "/posts", Ms: []string{"TRACE"}},
		Op{K: "clean"},
		Op{K: "pclean", P: "/posts"},
		Op{K: "pclean", P: "/p/"},
		// rejected registrations are part of real histories too: they must leave nothing behind
		Op{K: "reject", P: "/posts", Ms: []string{"PATCH", "BOGUS"}},
		Op{K: "reject", P: "/posts/au", Ms: []string{"get"}},
		Op{K: "reject", P: "/p/{y}", Ms: []string{"GET"}},
	)
	return ops
}

func setString(s []string) string { return strings.Join(s, ",") }

// c04Views checks the four views of every live pattern and OPTIONS *.
func c04Views(prop string, cfg RouterCfg, hist []Op, r *Router, t *ref.Table, c *explore.Child, outc map[string]struct{}) {
	hs := opsStrings(hist)
	rep := func(clause, class, probe, obs, exp string, q hv.Req, kind string) {
		c.Viols = append(c.Viols, explore.Violation{Property: prop, Clause: clause, Class: class, Config: cfg.String(), History: hs, Probe: probe, Observed: obs, Expected: exp})
	}
	routes := RoutesOf(r)
	c.Probes++
	for pat := range routes {
		if t.Routes[pat] == nil {
			rep(prop+".routes", "routes-lists-dead-pattern", "Routes()["+pat+"]", setString(routes[pat]), "not listed: no method is registered for it", hv.Req{}, "routes")
		}
	}
	for _, pat := range t.Patterns() {
		want := setString(t.Allow(pat))
		w := Witness(t.Routes[pat].P)
		if g := setString(routes[pat]); g != want {
			rep(prop+".routes", "routes-differ:"+diffSets(routes[pat], t.Allow(pat)), "Routes()["+pat+"]", g, want, hv.Req{}, "routes")
		}
		first := ""
		for i, m := range []string{"OPTIONS", "BOGUS", "GET", "POST", "PROPFIND", "get"} {
			q := hv.Req{Method: m, Path: w}
			o := hv.Serve(r, q)
			c.Probes++
			// which pattern answers a path does not depend on the method: a 405 is the 405 of the pattern OPTIONS found
			if i == 0 {
				first = o.Pattern
			} else if !o.Paniced && o.Pattern != first {
				rep(prop+".allow-header", "node-depends-on-method", q.String(), o.Summary(), "answered on behalf of the pattern that answers OPTIONS for this path: "+first, q, "dispatch")
			}
			outc[fmt.Sprintf("%s/%d/%s/%s", m, o.Status, o.Kind, o.Allow)] = struct{}{}
			if o.Paniced {
				rep(prop+".no-panic", "panic:"+shortPanic(o.Panic), q.String(), fmt.Sprintf("panic: %v", o.Panic), "no panic", q, "dispatch")
				continue
			}
			if o.Pattern != pat {
				// another live route wins this witness (priority); not this property's business
				continue
			}
			if g := setString(ref.ParseAllow(o.Allow)); g != want {
				rep(prop+".node-allowheader", "node-allowheader:"+diffSets(ref.ParseAllow(o.Allow), t.Allow(pat)), q.String()+" Node().AllowHeader()", g, want, q, "node-allow")
			}
			ms := append([]string(nil), o.Methods...)
			if g := setString(ref.ParseAllow(strings.Join(ms, ","))); g != want {
				rep(prop+".node-methods", "node-methods:"+diffSets(ref.ParseAllow(strings.Join(ms, ",")), t.Allow(pat)), q.String()+" Node().Methods()", g, want, q, "node-methods")
			}
			if o.Kind == "OPT" || o.Kind == "405" {
				hdr := ""
				if o.Header != nil {
					hdr = o.Header.Get("Allow")
				}
				if g := setString(ref.ParseAllow(hdr)); g != want {
					class := "allow-header-" + strings.ToLower(o.Kind) + ":" + diffSets(ref.ParseAllow(hdr), t.Allow(pat))
					if setString(ref.ParseAllow(o.Allow)) == want {
						class = "stale-node-after-split:" + strings.ToLower(o.Kind)
					}
					rep(prop+".allow-header", class, q.String()+" Allow header", g, want, q, "allow-header")
				}
			}
			if m == "OPTIONS" && o.Kind != "OPT" {
				rep(prop+".options-automatic", "options-not-automatic", q.String(), o.Summary(), "automatic OPTIONS answer", q, "dispatch")
			}
		}
	}
	// OPTIONS *
	q := hv.Req{Method: "OPTIONS", Path: "*"}
	o := hv.Serve(r, q)
	c.Probes++
	if o.Paniced {
		rep(prop+".no-panic", "panic:"+shortPanic(o.Panic), q.String(), fmt.Sprintf("panic: %v", o.Panic), "no panic", q, "dispatch")
		return
	}
	hdr := ""
	if o.Header != nil {
		hdr = o.Header.Get("Allow")
	}
	outc["star/"+hdr] = struct{}{}
	got := map[string]bool{}
	for _, m := range ref.ParseAllow(hdr) {
		got[m] = true
	}
	must := t.StarAllow()
	mustSet := map[string]bool{}
	for _, m := range must {
		mustSet[m] = true
		if !got[m] {
			class := "star-missing"
			if len(got) == 0 {
				class = "star-empty"
			}
			rep(prop+".options-star", class, q.String()+" Allow header", hdr, setString(must)+" (HEAD optional)", q, "allow-header")
			return
		}
	}
	for m := range got {
		if !mustSet[m] && m != "HEAD" {
			rep(prop+".options-star", "star-extra", q.String()+" Allow header", hdr, setString(must)+" (HEAD optional)", q, "allow-header")
			return
		}
	}
}

var c04Spec = &histSpec{Prop: "C04", Alphabet: c04Alphabet, Check: func(cfg RouterCfg, hist []Op, r *Router, t *ref.Table, c *explore.Child, outc map[string]struct{}) {
	c04Views("C04", cfg, hist, r, t, c, outc)
}}

// c04SplitAlphabet: routes that split the literal text after one parameter ({x}/b + c, d): removals re-join the
// nodes, later registrations split them again - the OPTIONS/405 handlers made for a node must follow its method
// set through all of that.
func c04SplitAlphabet() []Op {
	var ops []Op
	pool := []string{"/p/{x}/bc", "/p/{x}/b", "/p/{x}/bd"}
	for _, p := range pool {
		ops = append(ops, Op{K: "handle", P: p, Ms: []string{"GET"}}, Op{K: "handle", P: p, Ms: []string{"POST"}})
	}
	for _, p := range pool {
		ops = append(ops, Op{K: "remove", P: p}, Op{K: "remove", P: p, Ms: []string{"GET"}})
	}
	return append(ops, Op{K: "pclean", P: "/p/{x}/bd"})
}

var c04SplitSpec = &histSpec{Prop: "C04", Alphabet: c04SplitAlphabet, Check: c04Spec.Check}

func init() {
	c04Spec.register("c04/expand")
	c04SplitSpec.register("c04/expand-split")
	explore.Register(&explore.Check{ID: "C04", Run: func(rc *explore.RunCtx) {
		depth := 4
		if !rc.Quick() {
			depth = 5
		}
		rc.Set("alphabet_size", len(c04Alphabet()))
		rc.Set("depth_bound", depth)
		rc.Assume = append(rc.Assume,
			"histories over the C04 alphabet (5 patterns that split one another, methods GET/POST/PUT/TRACE, removals incl. never-registered methods, Clean, Prefix.Clean) up to the depth bound, with and without WithTrace",
			"views compared as sets: Allow of OPTIONS and 405 responses (as sent), Node().Methods(), Node().AllowHeader(), Routes(); OPTIONS * against the union of registered methods (HEAD optional)",
			"a second family over three routes that split the literal text after one parameter (registrations, removals that re-join nodes, Prefix.Clean): every history up to the depth bound literally (no state merging), and one level deeper with merging under WithTrace",
			"the first execution in each worker process starts from the empty history, so a fresh router is observed with a virgin process-wide memo")
		for _, cfg := range []RouterCfg{{}, {Trace: true}} {
			explore.BFS(rc, "c04/expand", histCfg{Router: cfg}, depth, true, "C04 "+cfg.String())
		}
		explore.BFS(rc, "c04/expand", histCfg{Router: RouterCfg{Lock: true, Trace: true}}, depth-1, true, "C04 lock+trace")
		// split and re-joined literal suffixes; literally every history (no state merging: a handler that still
		// points at a node the tree no longer contains is invisible in the tree's own shape)
		explore.BFS(rc, "c04/expand-split", histCfg{Router: RouterCfg{}}, depth, false, "C04 split suffix, no-dedup")
		explore.BFS(rc, "c04/expand-split", histCfg{Router: RouterCfg{Trace: true}}, depth+1, true, "C04 split suffix, trace")
	}})
}
