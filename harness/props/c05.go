package props

import (
	"encoding/json"
	"fmt"
	"net/http"
	"net/http/httptest"
	"strings"

	"github.com/issue9/mux/v9"
	"github.com/issue9/mux/v9/types"

	"verifharness/explore"
	"verifharness/hv"
	"verifharness/ref"
)

// ---- C05: no request and no pattern string can crash the router ----

var hostileMethods = []string{"GET", "", "BOGUS", "OPTIONS", "HEAD", "TRACE"}

var hostileBytes = []byte{'/', 'a', '{', '}', ':', '*', 0x00, 0x80, 0xff}

func hostilePaths(t *ref.Table, n int) []string {
	seen := map[string]bool{}
	var out []string
	add := func(s string) {
		if !seen[s] {
			seen[s] = true
			out = append(out, s)
		}
	}
	for _, s := range []string{"", "*", "/"} {
		add(s)
	}
	explore.Strings(hostileBytes, "", n, add)
	for _, p := range t.Parsed() {
		w := Witness(p)
		add(w)
		for _, e := range explore.Edit1(w, []byte{'/', 'a', '{', 0x00, 0xff}) {
			add(e)
		}
	}
	for _, c := range "abcdefgz" {
		add("/" + string(c))
		add("/" + string(c) + "zz")
	}
	return out
}

var longPaths = []string{"/" + strings.Repeat("a", 32766), "/" + strings.Repeat("a", 32767), "/" + strings.Repeat("a", 65535), "/a/" + strings.Repeat("7", 40000)}

func c05Check(cfg RouterCfg, hist []Op, r *Router, t *ref.Table, c *explore.Child, outc map[string]struct{}) {
	hs := opsStrings(hist)
	n := 2
	if len(hist) <= 1 {
		n = 3
	}
	paths := hostilePaths(t, n)
	if len(hist) <= 2 {
		paths = append(paths, longPaths...)
	}
	for _, p := range paths {
		for _, m := range hostileMethods {
			q := hv.Req{Method: m, Path: p}
			o := hv.Serve(r, q)
			c.Probes++
			outc[fmt.Sprintf("%d/%s", o.Status, o.Kind)] = struct{}{}
			if o.Paniced {
				pr := q
				if len(pr.Path) > 200 {
					pr.Path = pr.Path[:20] + fmt.Sprintf("...(%d bytes)", len(q.Path))
				}
				c.Viols = append(c.Viols, explore.Violation{Property: "C05", Clause: "C05.request-no-panic", Class: "panic:" + shortPanic(o.Panic), Config: cfg.String(), History: hs, Probe: pr.String(),
					Observed: fmt.Sprintf("panic: %v", o.Panic), Expected: "no panic"})
			}
		}
	}
}

var c05Spec = &histSpec{Prop: "C05", Alphabet: c03Alphabet, Check: c05Check}

// ---- (a') groups, hosts, version matchers ----

type c05GroupItem struct {
	Kind int `json:"kind"`
}

type simpleOut struct {
	Evals    int64               `json:"evals"`
	Viols    []explore.Violation `json:"viols"`
	Outcomes []string            `json:"outcomes"`
	Sample   any                 `json:"sample"`
}

func newGroup(o ...mux.Option) *mux.Group[*hv.H] {
	return mux.NewGroup[*hv.H](hv.Call, hv.NotFound(), hv.Build405, hv.BuildOPT, o...)
}

var hostileHosts = func() []string {
	hs := []string{"\u212a\u212a\u212a.b.com:8080", "\u212a.b.com:80", "[\u212a\u212a.b.com]:1", "\u0130.b.com:80", "", "*", "a", "A.b", "a:", "a:80", "a:x", "[::1]", "[::1]:80", "[", "]", ":", "a.com", "A.COM:80", "s.b.com", "[a.com]", "a.com:", "::", ":::", "[]", "[]:", "[:]"}
	explore.Strings([]byte{'a', '.', ':', '[', ']', '*', '{', 0xff}, "", 3, func(s string) { hs = append(hs, s) })
	return hs
}()

var hostileAccepts = []string{"", "application/json", "application/json;version=1", "application/json; version=2", ";", ";;", "a/b;=", "\xff", "a/b;version", "a/b;version=", "a/b;version=\"1", "*/*;version=1", "/;version=1", "a;version=1;version=2", strings.Repeat("a", 70000)}

func c05GroupJob(raw json.RawMessage) (any, error) {
	var it c05GroupItem
	json.Unmarshal(raw, &it)
	out := &simpleOut{}
	outc := map[string]struct{}{}
	g := newGroup()
	hosts := mux.NewHosts(false, "a.com", "{sub}.b.com", "c.com", "d.com", "e.com", "f.com", "::1")
	matchers := []mux.Matcher{
		hosts,
		mux.NewPathVersion("v", "v1", "v11"),
		mux.NewHeaderVersion("hv", "", func(error) {}, "1", "2"),
		mux.AndMatcher(mux.NewPathVersion("v", "v2"), mux.NewHosts(false, "a.com")),
		mux.OrMatcher(mux.NewHosts(false, "{s:\\d+}.x"), mux.NewHeaderVersion("", "v", func(error) {}, "3")),
		nil,
	}
	mnames := []string{"hosts", "pathver", "headerver", "and", "or", "any"}
	k := it.Kind % len(matchers)
	r := g.New("r"+mnames[k], matchers[k])
	r.Handle("/x", hv.Route("hx"), nil, "GET")
	r.Handle("/{p}", hv.Route("hp"), nil, "GET")
	paths := []string{"", "*", "/", "/x", "/v1", "/v1/", "/v1/x", "/v11/x", "/v2/x", "//", "/v1//", "\xff", "/v1\xff/", "v1/x"}
	for _, h := range hostileHosts {
		for _, p := range paths {
			for _, acc := range hostileAccepts {
				if h != "a.com" && p != "/x" && acc != "" && len(h) > 1 {
					continue // full product only along the axes; pairs elsewhere
				}
				for _, m := range []string{"GET", "", "OPTIONS"} {
					q := hv.Req{Method: m, Path: p, Host: h}
					if acc != "" {
						q.Header = map[string]string{"Accept": acc}
					}
					o := hv.Serve(g, q)
					out.Evals++
					outc[fmt.Sprintf("%s/%d/%s", mnames[k], o.Status, o.Kind)] = struct{}{}
					if o.Paniced {
						qq := q
						if len(acc) > 100 {
							qq.Header = map[string]string{"Accept": acc[:10] + "..."}
						}
						out.Viols = append(out.Viols, explore.Violation{Property: "C05", Clause: "C05.group-no-panic", Class: "panic:" + mnames[k] + ":" + shortPanic(o.Panic), Config: "group with one router behind matcher " + mnames[k], Probe: qq.String(),
							Observed: fmt.Sprintf("panic: %v", o.Panic), Expected: "no panic", Replay: explore.ItemReplay("c05/group", it)})
					}
				}
			}
		}
	}
	// matchers called directly
	for _, h := range hostileHosts {
		for mi, m := range matchers[:5] {
			ctx := types.NewContext()
			req := hv.NewRequest(hv.Req{Method: "GET", Path: "/v1/x", Host: h, Header: map[string]string{"Accept": "a/b;version=1"}}, &hv.Obs{})
			if v, bad := Guard(func() { m.Match(req, ctx) }); bad {
				out.Viols = append(out.Viols, explore.Violation{Property: "C05", Clause: "C05.matcher-no-panic", Class: "panic:" + mnames[mi], Probe: fmt.Sprintf("%s.Match(Host=%q)", mnames[mi], h), Observed: fmt.Sprintf("panic: %v", v), Expected: "no panic", Replay: explore.ItemReplay("c05/group", it)})
			}
			ctx.Destroy()
			out.Evals++
		}
	}
	// a header key that is present with no value at all (an upstream filter emptied the list in place): legal for
	// http.Header, to the matchers and to the group it is a request without that header
	for _, key := range []string{"Accept", "Host", "Origin", "Content-Type"} {
		for vi, vals := range [][]string{{}, nil, {""}, {"", ""}} {
			for mi, m := range matchers[:5] {
				ctx := types.NewContext()
				req := hv.NewRequest(hv.Req{Method: "GET", Path: "/v1/x", Host: "a.com"}, &hv.Obs{})
				req.Header[key] = vals
				if v, bad := Guard(func() { m.Match(req, ctx) }); bad {
					out.Viols = append(out.Viols, explore.Violation{Property: "C05", Clause: "C05.matcher-no-panic", Class: "panic:" + mnames[mi] + ":empty-header-list", Probe: fmt.Sprintf("%s.Match(GET /v1/x, Header[%q]=%#v)", mnames[mi], key, vals), Observed: fmt.Sprintf("panic: %v", v), Expected: "no panic", Replay: explore.ItemReplay("c05/group", it)})
				}
				ctx.Destroy()
				out.Evals++
			}
			req := hv.NewRequest(hv.Req{Method: "GET", Path: "/x", Host: "a.com"}, &hv.Obs{})
			req.Header[key] = vals
			if v, bad := Guard(func() { g.ServeHTTP(httptest.NewRecorder(), req) }); bad {
				out.Viols = append(out.Viols, explore.Violation{Property: "C05", Clause: "C05.group-no-panic", Class: "panic:" + mnames[k] + ":empty-header-list", Config: "group with one router behind matcher " + mnames[k], Probe: fmt.Sprintf("GET /x, Header[%q]=%#v (variant %d)", key, vals, vi), Observed: fmt.Sprintf("panic: %v", v), Expected: "no panic", Replay: explore.ItemReplay("c05/group", it)})
			}
			out.Evals++
		}
	}
	out.Sample = map[string]any{"matcher": mnames[k], "hosts": len(hostileHosts), "paths": len(paths), "accepts": len(hostileAccepts)}
	out.Viols = smallestPerSig(out.Viols)
	out.Outcomes = keys(outc)
	return out, nil
}

// ---- (b) pattern strings ----

var patternBytes = []byte{'/', 'a', 'b', '{', '}', ':', '-', '\\', 'd', '+', '(', '*'}

type c05PatItem struct {
	Prefix string `json:"prefix"`
	Extra  int    `json:"extra"`
	Rules  bool   `json:"rules,omitempty"` // enumerate rule texts: Prefix+Σrule^≤Extra wrapped in parameter tokens
}

// rule alphabet: everything that lets a rule escape its group or fail to compile
var ruleBytes = []byte{'a', 'b', '(', ')', '|', '\\', 'd', '+', '*', '[', ']', '?', '^', '$'}

// patternTrial runs every entry point on one pattern string. It returns the
// first failing step.
func patternTrial(p string) (step, class, obs, exp string, outcome string) {
	var synErr error
	if v, bad := Guard(func() { synErr = mux.CheckSyntax(p) }); bad {
		return "CheckSyntax", "checksyntax-panic", fmt.Sprintf("panic: %v", v), "an error or nil", ""
	}
	for i, ps := range []map[string]string{nil, {"a": "1", "b": "2", "d": "3", "-a": "4", "-": "5", "ab": "6", "": "7"}, {"zz": "1"}} {
		if v, bad := Guard(func() { mux.URL(p, ps) }); bad {
			return fmt.Sprintf("URL#%d", i), "url-panic", fmt.Sprintf("panic: %v", v), "a string or an error", ""
		}
	}
	r := NewRouter(RouterCfg{})
	for _, strict := range []bool{false, true} {
		if v, bad := Guard(func() { r.URL(strict, p, map[string]string{"a": "1"}); r.URL(strict, p, nil) }); bad {
			return fmt.Sprintf("Router.URL(strict=%v)", strict), "router-url-panic", fmt.Sprintf("panic: %v", v), "a string or an error", ""
		}
	}
	// ... and on a router with a URL domain, and through the facades (all of them reach Router.URL)
	rd := NewRouter(RouterCfg{}, mux.WithURLDomain("https://d/"))
	for _, strict := range []bool{false, true} {
		if v, bad := Guard(func() {
			rd.URL(strict, p, map[string]string{"a": "1"})
			rd.URL(strict, p, nil)
			rd.Prefix("").URL(strict, p, nil)
			rd.Prefix(p).URL(strict, "", nil)
			rd.Resource(p).URL(strict, nil)
		}); bad {
			return fmt.Sprintf("Router.URL(strict=%v) with a URL domain", strict), "router-url-panic", fmt.Sprintf("panic: %v", v), "a string or an error", ""
		}
	}
	// fresh router, no interceptors: registers iff CheckSyntax accepts
	v, bad := Guard(func() { r.Handle(p, hv.Route("h"), nil, "GET") })
	outcome = fmt.Sprintf("syntax=%v handle=%v", synErr == nil, !bad)
	if bad {
		if pc := PanicClass(v); pc != "error" {
			return "Handle(fresh)", "handle-panic-not-error:" + pc, fmt.Sprintf("panic(%T): %v", v, v), "registered, or panic with an error value", outcome
		}
		if synErr == nil {
			return "Handle(fresh)", "handle-rejects-checksyntax-accepts", fmt.Sprintf("panic: %v", v), "registered (CheckSyntax returned nil)", outcome
		}
	} else {
		if synErr != nil {
			return "Handle(fresh)", "handle-accepts-checksyntax-rejects", "registered", fmt.Sprintf("panic with an error (CheckSyntax: %v)", synErr), outcome
		}
		for _, path := range []string{p, "/", "", "/a", "/a/b", p + "/", "/b", "/ab", "/aa", "/b/b", "/1"} {
			for _, m := range []string{"GET", "BOGUS"} {
				if o := hv.Serve(r, hv.Req{Method: m, Path: path}); o.Paniced {
					return "Serve(after Handle) " + m + " " + fmt.Sprintf("%q", path), "serve-panic-after-handle", fmt.Sprintf("panic: %v", o.Panic), "no panic", outcome
				}
			}
		}
		if v, bad := Guard(func() { r.URL(true, p, map[string]string{"a": "1", "b": "2", "d": "3"}); r.Routes(); r.Remove(p) }); bad {
			return "URL/Routes/Remove(after Handle)", "panic-after-handle", fmt.Sprintf("panic: %v", v), "no panic", outcome
		}
	}
	// router that already has routes
	r2 := NewRouter(RouterCfg{})
	r2.Handle("/a/{x}", hv.Route("h0"), nil, "GET")
	r2.Handle("/ab", hv.Route("h1"), nil, "GET")
	if v, bad := Guard(func() { r2.Handle(p, hv.Route("h"), nil, "GET") }); bad {
		if pc := PanicClass(v); pc != "error" {
			return "Handle(populated)", "handle-panic-not-error:" + pc, fmt.Sprintf("panic(%T): %v", v, v), "registered, or panic with an error value", outcome
		}
	}
	// router with interceptors (the rule texts digit/word/any and \d+ become interceptors): registers or panics
	// with an error value, then serves without panic
	if len(p) <= 5 || strings.Contains(p, ":d") || strings.Contains(p, `\d+`) {
		ri := NewRouter(RouterCfg{IC: "I2"}, mux.WithInterceptor(func(s string) bool { return len(s) > 1 }, "d", "a", "b", "+", "*"))
		if v, bad := Guard(func() { ri.Handle(p, hv.Route("h"), nil, "GET") }); bad {
			if pc := PanicClass(v); pc != "error" {
				return "Handle(router with interceptors)", "handle-panic-not-error:" + pc, fmt.Sprintf("panic(%T): %v", v, v), "registered, or panic with an error value", outcome
			}
		}
		for _, path := range []string{p, "/a", "/aa", "/a/b", "/12", ""} {
			if o := hv.Serve(ri, hv.Req{Method: "GET", Path: path}); o.Paniced {
				return "Serve(router with interceptors) " + fmt.Sprintf("%q", path), "serve-panic-after-handle", fmt.Sprintf("panic: %v", o.Panic), "no panic", outcome
			}
		}
		if v, bad := Guard(func() { ri.URL(true, p, map[string]string{"a": "11", "b": "22", "d": "33"}) }); bad {
			return "Router.URL(strict, router with interceptors)", "router-url-panic", fmt.Sprintf("panic: %v", v), "a string or an error", outcome
		}
	}
	// router that already has the same pattern up to parameter names: the ambiguity check walks it
	if pp, err := ref.Parse(p, ref.Interceptors{}); err == nil && len(pp.AllNames()) > 0 {
		for _, flip := range []bool{false, true} {
			r3 := NewRouter(RouterCfg{})
			if _, bad := Guard(func() { r3.Handle(renamed(pp, flip), hv.Route("h0"), nil, "GET") }); bad {
				continue
			}
			if v, bad := Guard(func() { r3.Handle(p, hv.Route("h"), nil, "POST") }); bad {
				if pc := PanicClass(v); pc != "error" {
					return "Handle(after its renamed twin " + renamed(pp, flip) + ")", "handle-panic-not-error:" + pc, fmt.Sprintf("panic(%T): %v", v, v), "registered, or panic with an error value", outcome
				}
			}
			if o := hv.Serve(r3, hv.Req{Method: "GET", Path: p}); o.Paniced {
				return "Serve(after renamed twin)", "serve-panic-after-handle", fmt.Sprintf("panic: %v", o.Panic), "no panic", outcome
			}
		}
	}
	// the same text as a domain of a Hosts matcher (its Add is Handle for the matcher's private table): registered or
	// refused with an error value, and whatever was registered can be matched against and deleted
	hs := mux.NewHosts(false, "a.com")
	if v, bad := Guard(func() { hs.Add(p) }); bad {
		if pc := PanicClass(v); pc != "error" {
			return "Hosts.Add", "hosts-add-panic-not-error:" + pc, fmt.Sprintf("panic(%T): %v", v, v), "registered, or panic with an error value", outcome
		}
	}
	for _, host := range []string{p, "a.com", "a", "ab", "1"} {
		hctx := types.NewContext()
		v, bad := Guard(func() { hs.Match(hv.NewRequest(hv.Req{Method: "GET", Path: "/", Host: host}, &hv.Obs{}), hctx) })
		hctx.Destroy()
		if bad {
			return "Hosts.Match(after Add) " + fmt.Sprintf("%q", host), "hosts-match-panic", fmt.Sprintf("panic: %v", v), "no panic", outcome
		}
	}
	if v, bad := Guard(func() { hs.Delete(p) }); bad {
		return "Hosts.Delete(after Add)", "hosts-delete-panic", fmt.Sprintf("panic: %v", v), "no panic", outcome
	}
	for _, path := range []string{p, "/a/1", "/ab", "/a/"} {
		if o := hv.Serve(r2, hv.Req{Method: "GET", Path: path}); o.Paniced {
			return "Serve(populated) " + fmt.Sprintf("%q", path), "serve-panic-after-handle", fmt.Sprintf("panic: %v", o.Panic), "no panic", outcome
		}
	}
	return "", "", "", "", outcome
}

func c05PatJob(raw json.RawMessage) (any, error) {
	var it c05PatItem
	json.Unmarshal(raw, &it)
	out := &simpleOut{}
	outc := map[string]struct{}{}
	enum := func(f func(string)) { explore.Strings(patternBytes, it.Prefix, it.Extra, f) }
	if it.Rules {
		enum = func(f func(string)) {
			explore.Strings(ruleBytes, it.Prefix, it.Extra, func(rule string) {
				for _, pat := range []string{"/{a:" + rule + "}", "/{a:" + rule + "}/b", "/{-a:" + rule + "}b", "/a/{a:" + rule + "}"} {
					f(pat)
				}
			})
		}
	}
	if it.Rules && it.Extra == 0 && strings.HasPrefix(it.Prefix, "/") { // replay of one pattern
		enum = func(f func(string)) { f(it.Prefix) }
	}
	enum(func(p string) {
		out.Evals++
		step, class, obs, exp, outcome := patternTrial(p)
		outc[outcome] = struct{}{}
		if class != "" {
			out.Viols = append(out.Viols, explore.Violation{Property: "C05", Clause: "C05.pattern", Class: class, Probe: fmt.Sprintf("pattern %q: %s", p, step), Observed: obs, Expected: exp,
				Replay: explore.ItemReplay("c05/patterns", c05PatItem{Prefix: p, Extra: 0, Rules: strings.HasPrefix(p, "/") && it.Rules})})
			out.Viols = smallestPerSig(out.Viols)
		}
	})
	out.Sample = map[string]any{"prefix": it.Prefix, "extra": it.Extra, "patterns": out.Evals}
	out.Outcomes = keys(outc)
	return out, nil
}

var _ http.Handler

func init() {
	c05Spec.register("c05/expand")
	explore.RegisterJob("c05/group", c05GroupJob)
	explore.RegisterJob("c05/patterns", c05PatJob)
	explore.Register(&explore.Check{ID: "C05", Run: func(rc *explore.RunCtx) {
		depth, plen := 3, 6
		if !rc.Quick() {
			depth, plen = 4, 7
		}
		rc.Set("history_depth", depth)
		rc.Set("pattern_max_len", plen)
		rc.Assume = append(rc.Assume,
			"(c) patterns whose segments are 32765..32770 and 65540 bytes long (ASCII and 3-byte characters, so that the limit is also crossed in characters but not in bytes and vice versa) after literal text and after each kind of parameter, through the same trial as every enumerated pattern",
			"(a) every state of the C03 history search up to the depth bound is probed with 6 method strings (incl. empty and unknown) x hostile paths: '', '*', all strings over {/ a { } : * 0x00 0x80 0xff} up to length 2-3, witnesses and their edit-1 neighbours, 32767/32768/65536-byte paths",
			"(a') groups with one router behind each matcher kind (Hosts, path version, header version, And, Or, nil) x hostile Host strings (all strings over {a . : [ ] * { 0xff} up to length 3 and a fixed list) x paths x Accept values; matchers also called directly; requests whose header map holds Accept / Host / Origin / Content-Type with an empty or nil value list",
			"(a'') every CORS configuration of C11 and eight more whose origin / header / exposed lists have empty members x every request of its product extended with malformed Access-Control-Request-Headers values: no panic",
			"(b) every pattern string over {/ a b { } : - \\ d + ( *} up to the length bound (quick: length 6 only for strings starting with '/{' or '{', length 5 otherwise), and every rule text over {a b ( ) | \\ d + * [ ] ? ^ $} up to the rule bound wrapped as /{a:R}, /{a:R}/b, /{-a:R}b, /a/{a:R}, through CheckSyntax, mux.URL, Router.URL (strict and not), Handle on a fresh and on a populated router, then served",
			"a harness handler never panics on its own; a nil handler given to the CallFunc counts as a router fault")
		for _, cfg := range []RouterCfg{{}, {Trace: true}} {
			explore.BFS(rc, "c05/expand", histCfg{Router: cfg}, depth, true, "C05 "+cfg.String())
		}
		var gi []c05GroupItem
		for k := 0; k < 6; k++ {
			gi = append(gi, c05GroupItem{Kind: k})
		}
		explore.ParMap(rc, "c05/group", gi, func(i int, in c05GroupItem, o simpleOut) { mergeSimple(rc, o, "group_requests") })
		// headers and options: the full CORS configuration x request product (incl. malformed header lists), no-panic only
		var ci []corsItem
		for _, c := range corsConfigs() {
			ci = append(ci, corsItem{Prop: "C05", Cfg: c})
		}
		// allow-lists with an empty member (strings.Split("X-Tok,", ",")): odd, legal, and no reason to fault
		for _, h := range [][]string{{"X-Tok", ""}, {"", "X-Tok"}, {""}, {"", ""}} {
			ci = append(ci, corsItem{Prop: "C05", Cfg: corsCfg{Origins: []string{"https://a"}, Headers: h, Cred: true}},
				corsItem{Prop: "C05", Cfg: corsCfg{Origins: []string{"", "https://a"}, Headers: h, Exposed: []string{""}}})
		}
		explore.ParMap(rc, "c11/config", ci, func(i int, in corsItem, o simpleOut) { mergeSimple(rc, o, "cors_requests") })
		var pi []c05PatItem
		pi = append(pi, c05PatItem{Prefix: "", Extra: 1}) // lengths 0..1
		for _, a := range patternBytes {
			for _, b := range patternBytes {
				extra := plen - 2
				if rc.Quick() && !(a == '/' && b == '{') && !(a == '{') {
					extra-- // quick: full length only where a parameter token can still be completed
				}
				pi = append(pi, c05PatItem{Prefix: string([]byte{a, b}), Extra: extra})
			}
		}
		rlen := 4
		if !rc.Quick() {
			rlen = 6
		}
		rc.Set("rule_max_len", rlen)
		pi = append(pi, c05PatItem{Prefix: "", Extra: 1, Rules: true})
		for _, a := range ruleBytes {
			for _, b := range ruleBytes {
				pi = append(pi, c05PatItem{Prefix: string([]byte{a, b}), Extra: rlen - 2, Rules: true})
			}
		}
		explore.ParMap(rc, "c05/patterns", pi, func(i int, in c05PatItem, o simpleOut) { mergeSimple(rc, o, "pattern_strings") })
		// ordered pairs over unusual spellings: what is registered already may make Handle refuse a pattern as a
		// duplicate or as ambiguous, never for its syntax
		var xitems []exoticItem
		for _, p := range c17ExoticPool() {
			xitems = append(xitems, exoticItem{Prop: "C05", First: p})
		}
		explore.ParMap(rc, "c17/exotic", xitems, func(i int, in exoticItem, o pairOut) {
			rc.Add("exotic_pairs", o.Pairs)
			rc.Add("transitions", o.Pairs)
			for _, v := range o.Viols {
				rc.Report(v)
			}
		})
		// an interceptor may be registered under any name - also one that is no regular expression: a pattern that uses
		// it registers and is served
		for _, name := range []string{"*", "+", "(hex", "[", "d"} {
			ri := NewRouter(RouterCfg{}, mux.WithInterceptor(func(s string) bool { return len(s) > 1 }, name))
			p := "/f/{p:" + name + "}/x"
			v, bad := Guard(func() { ri.Handle(p, hv.Route("h"), nil, "GET") })
			o := hv.Serve(ri, hv.Req{Method: "GET", Path: "/f/ab/x"})
			rc.Add("long_patterns", 1)
			if bad || o.Paniced || o.Status != 200 {
				rc.Report(explore.Violation{Property: "C05", Clause: "C05.pattern", Class: "interceptor-name-taken-for-a-regexp", Probe: fmt.Sprintf("WithInterceptor(f, %q); Handle(%q); GET /f/ab/x", name, p),
					Observed: fmt.Sprintf("Handle panicked=%v (%v); GET -> %s", bad, v, o.Summary()), Expected: "registered and served: the rule names an interceptor of this router"})
			}
		}
		// the empty pattern and the other texts no enumeration prefix produces
		for _, p := range []string{"", "*", "/", "{", "}"} {
			step, class, obs, exp, outcome := patternTrial(p)
			rc.Add("long_patterns", 1)
			rc.Outcome("special/" + outcome)
			if class != "" {
				rc.Report(explore.Violation{Property: "C05", Clause: "C05.pattern", Class: class, Probe: fmt.Sprintf("pattern %q: %s", p, step), Observed: obs, Expected: exp})
			}
		}
		// length classes around the 32767-byte segment limit, in bytes and in characters (3-byte characters: the
		// limit is reached at 10923 of them), after literal text and after each kind of parameter; every such
		// pattern goes through the same trial as the short ones (fresh and populated router, renamed twin, URL)
		for _, head := range []string{"/", "/{a}/", "/{a:\\d+}/", "/a/{-a}"} {
			for _, unit := range []string{"x", "\u4e2d"} {
				for _, total := range []int{32765, 32766, 32767, 32768, 32770, 65540} {
					n := (total - len(head) + 1) / len(unit)
					for _, k := range []int{n - 1, n, n + 1} {
						p := head + strings.Repeat(unit, k)
						step, class, obs, exp, outcome := patternTrial(p)
						rc.Add("long_patterns", 1)
						rc.Outcome("long/" + outcome)
						if class != "" {
							rc.Report(explore.Violation{Property: "C05", Clause: "C05.pattern", Class: class, Probe: fmt.Sprintf("pattern %q + %d x %q (%d bytes): %s", head, k, unit, len(p), step), Observed: obs, Expected: exp})
						}
					}
				}
			}
		}
	}})
}

func mergeSimple(rc *explore.RunCtx, o simpleOut, counter string) {
	rc.Add(counter, o.Evals)
	rc.Add("transitions", o.Evals)
	rc.Add("states", o.Evals)
	for _, v := range o.Viols {
		rc.Report(v)
	}
	for _, s := range o.Outcomes {
		rc.Outcome(s)
	}
	if o.Sample != nil {
		rc.Sample(o.Sample)
	}
}
