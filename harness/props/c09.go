package props

import (
	"encoding/json"
	"fmt"
	"sort"
	"strings"

	"github.com/issue9/mux/v9"
	"github.com/issue9/mux/v9/types"

	"verifharness/explore"
	"verifharness/hv"
	"verifharness/ref"
)

// ---- C09: middleware onion order ----

// mwOp is one configuration call of a C09 program.
type mwOp struct {
	K     string   `json:"k"`             // use | handle | remove | pclean | rclean | guse | gnew | gadd
	Via   string   `json:"via,omitempty"` // "", P1, P2, R : the facade the call goes through
	P     string   `json:"p,omitempty"`   // pattern relative to the facade
	Ms    []string `json:"ms,omitempty"`
	Route []string `json:"route,omitempty"` // middlewares given with the registration
	Use   []string `json:"use,omitempty"`
	Name  string   `json:"name,omitempty"` // router name for group ops
}

func (o mwOp) String() string {
	via := o.Via
	if via == "" {
		via = "Router"
	}
	switch o.K {
	case "use":
		return "Use(" + strings.Join(o.Use, ",") + ")"
	case "handle":
		return fmt.Sprintf("%s.Handle(%q,[%s],mw[%s])", via, o.P, qjoin(o.Ms), strings.Join(o.Route, ","))
	case "remove":
		return fmt.Sprintf("%s.Remove(%q,[%s])", via, o.P, qjoin(o.Ms))
	case "pclean":
		return via + ".Clean()"
	case "guse":
		return "Group.Use(" + strings.Join(o.Use, ",") + ")"
	case "gnew":
		return "Group.New(" + o.Name + ")"
	case "gadd":
		return "Group.Add(" + o.Name + " with own Use(" + strings.Join(o.Use, ",") + "))"
	case "ruse":
		return o.Name + ".Use(" + strings.Join(o.Use, ",") + ")"
	case "rhandle":
		return fmt.Sprintf("%s.Handle(%q,[%s],mw[%s])", o.Name, o.P, qjoin(o.Ms), strings.Join(o.Route, ","))
	}
	return o.K
}

// facades: prefix text and middleware list in application order (as concatenated by the documented rule:
// own arguments first, then the parent's).
var facadePrefix = map[string]string{"": "", "P1": "/p", "P2": "/p/q", "R": "/p/r/{id}", "P3": "/p/q/s"}
var facadeMW = map[string][]string{"": nil, "P1": {"D"}, "P2": {"E", "F", "D"}, "R": {"G", "D"}, "P3": {"H", "E", "F", "D"}} // P3: three levels deep

func c09Alphabet() []mwOp {
	return []mwOp{
		{K: "use", Use: []string{"A"}},
		{K: "use", Use: []string{"B", "C"}},
		{K: "handle", P: "/x", Ms: []string{"GET"}, Route: []string{"M1", "M2"}},
		{K: "handle", P: "/x", Ms: []string{"POST"}, Route: []string{"M1", "M2", "M3"}},
		{K: "handle", Via: "P1", P: "/y", Ms: []string{"GET"}, Route: []string{"M1"}},
		{K: "handle", Via: "P2", P: "/z", Ms: []string{"POST"}},
		{K: "handle", Via: "R", P: "", Ms: []string{"GET"}, Route: []string{"M1"}},
		{K: "handle", Via: "R", P: "", Ms: []string{"POST"}},
		{K: "handle", P: "/x/{id}"},
		{K: "handle", Via: "P2", P: "/any", Route: []string{"M1"}}, // Prefix.Any below a nested prefix
		{K: "handle", Via: "R", P: ""},                             // Resource.Any
		{K: "handle", Via: "P3", P: "/w", Ms: []string{"GET"}, Route: []string{"M1"}}, // a prefix of a prefix of a prefix
		{K: "handle", Via: "P1", P: "/y", Ms: []string{"POST", "PUT"}, Route: []string{"M1", "M2", "M3"}},
		{K: "remove", P: "/x"},
		{K: "remove", P: "/x", Ms: []string{"GET"}},
		{K: "remove", Via: "R", P: ""},
		{K: "pclean", Via: "P1"},
		{K: "pclean", Via: ""}, // Router.Clean(): every route goes, the Use list stays
	}
}

// onion is the reference model.
type onion struct {
	trace  bool
	use    []string // in order of addition
	routes map[string]*onionRoute
}

type onionRoute struct {
	first   []string            // application-order list of the call that made the pattern live
	methods map[string][]string // per registered method: application-order list of its call
}

func newOnion(trace bool) *onion { return &onion{trace: trace, routes: map[string]*onionRoute{}} }

func rev(a []string) []string {
	b := make([]string, len(a))
	for i, x := range a {
		b[len(a)-1-i] = x
	}
	return b
}

// trail = Use list reversed (latest outermost) ++ call list reversed.
func (m *onion) trail(list []string) []string { return append(rev(m.use), rev(list)...) }

func (m *onion) String() string {
	var b strings.Builder
	b.WriteString("use=" + strings.Join(m.use, ",") + ";")
	ks := make([]string, 0, len(m.routes))
	for k := range m.routes {
		ks = append(ks, k)
	}
	sort.Strings(ks)
	for _, k := range ks {
		r := m.routes[k]
		b.WriteString(k + "{first=" + strings.Join(r.first, ",") + ";")
		ms := make([]string, 0, len(r.methods))
		for x := range r.methods {
			ms = append(ms, x)
		}
		sort.Strings(ms)
		for _, x := range ms {
			b.WriteString(x + "=" + strings.Join(r.methods[x], ",") + ";")
		}
		b.WriteString("}")
	}
	return b.String()
}

// apply returns false when the model says the call is rejected (not enabled).
func (m *onion) apply(o mwOp, dry bool) bool {
	switch o.K {
	case "use":
		if !dry {
			m.use = append(m.use, o.Use...)
		}
	case "handle":
		pat := facadePrefix[o.Via] + o.P
		ms := o.Ms
		if len(ms) == 0 {
			ms = ref.AnyMethods
		}
		r := m.routes[pat]
		for _, x := range ms {
			if r != nil && r.methods[x] != nil {
				return false
			}
		}
		if dry {
			return true
		}
		list := append(append([]string{}, o.Route...), facadeMW[o.Via]...)
		if r == nil {
			r = &onionRoute{first: list, methods: map[string][]string{}}
			m.routes[pat] = r
		}
		for _, x := range ms {
			l := list
			if l == nil {
				l = []string{}
			}
			r.methods[x] = l
		}
	case "remove":
		if dry {
			return true
		}
		pat := facadePrefix[o.Via] + o.P
		r := m.routes[pat]
		if r == nil {
			return true
		}
		if len(o.Ms) == 0 {
			delete(m.routes, pat)
			return true
		}
		for _, x := range o.Ms {
			delete(r.methods, x)
		}
		if len(r.methods) == 0 {
			delete(m.routes, pat)
		}
	case "pclean":
		if dry {
			return true
		}
		for k := range m.routes {
			if strings.HasPrefix(k, facadePrefix[o.Via]) {
				delete(m.routes, k)
			}
		}
	}
	return true
}

type c09Sys struct {
	// master is the caller's own middleware list M1,M2,M3: registrations pass prefixes of it (master[:k]...),
	// the way an application slices one list. mux must not write into it.
	master []types.Middleware[*hv.H]
	r      *Router
	log    *hv.Log
	p1     *mux.Prefix[*hv.H]
	p2     *mux.Prefix[*hv.H]
	p3     *mux.Prefix[*hv.H]
	res    *mux.Resource[*hv.H]
}

func mws(log *hv.Log, names []string) []types.Middleware[*hv.H] {
	out := make([]types.Middleware[*hv.H], len(names))
	for i, n := range names {
		out[i] = hv.MW{Name: n, Log: log}
	}
	return out
}

// mwArena backs the slices made by spare: one array re-used by every call and with spare capacity, the way a
// caller passes `list[:n]...`. A callee that keeps the slice or appends into its capacity instead of copying
// gets its middlewares overwritten by the next call.
var mwArena = make([]types.Middleware[*hv.H], 0, 64)

func spare(log *hv.Log, names []string) []types.Middleware[*hv.H] {
	a := mwArena[:0]
	for _, n := range names {
		a = append(a, hv.MW{Name: n, Log: log})
	}
	return a
}

func newC09Sys(cfg RouterCfg) *c09Sys {
	s := &c09Sys{log: &hv.Log{ByH: map[*hv.H]hv.FactoryCall{}}}
	s.r = NewRouter(cfg)
	s.master = mws(s.log, []string{"M1", "M2", "M3"})
	s.p1 = s.r.Prefix("/p", spare(s.log, []string{"D"})...)
	s.p2 = s.p1.Prefix("/q", spare(s.log, []string{"E", "F"})...)
	s.p3 = s.p2.Prefix("/s", spare(s.log, []string{"H"})...)
	s.res = s.p1.Resource("/r/{id}", spare(s.log, []string{"G"})...)
	return s
}

// route returns the caller's slice for a registration: a prefix of the master list.
func (s *c09Sys) route(names []string) []types.Middleware[*hv.H] {
	for i, n := range names {
		if n != fmt.Sprintf("M%d", i+1) {
			panic("harness: route middleware lists must be prefixes of M1,M2,M3")
		}
	}
	return s.master[:len(names)]
}

func (s *c09Sys) apply(o mwOp) (any, bool) {
	return Guard(func() {
		h := hv.Route("h:" + facadePrefix[o.Via] + o.P + ":" + strings.Join(o.Ms, "+"))
		switch o.K {
		case "use":
			s.r.Use(spare(s.log, o.Use)...)
		case "handle":
			// through the shorthand entry point when the method list has one (Any/Get/Post), else Handle
			short := ""
			switch {
			case len(o.Ms) == 0:
				short = "any"
			case len(o.Ms) == 1 && (o.Ms[0] == "GET" || o.Ms[0] == "POST"):
				short = o.Ms[0]
			}
			m := s.route(o.Route)
			switch o.Via {
			case "":
				switch short {
				case "any":
					s.r.Any(o.P, h, m...)
				case "GET":
					s.r.Get(o.P, h, m...)
				case "POST":
					s.r.Post(o.P, h, m...)
				default:
					s.r.Handle(o.P, h, m, o.Ms...)
				}
			case "P1", "P2", "P3":
				p := s.p1
				if o.Via == "P2" {
					p = s.p2
				}
				if o.Via == "P3" {
					p = s.p3
				}
				switch short {
				case "any":
					p.Any(o.P, h, m...)
				case "GET":
					p.Get(o.P, h, m...)
				case "POST":
					p.Post(o.P, h, m...)
				default:
					p.Handle(o.P, h, m, o.Ms...)
				}
			case "R":
				switch short {
				case "any":
					s.res.Any(h, m...)
				case "GET":
					s.res.Get(h, m...)
				case "POST":
					s.res.Post(h, m...)
				default:
					s.res.Handle(h, m, o.Ms...)
				}
			}
		case "remove":
			switch o.Via {
			case "":
				s.r.Remove(o.P, o.Ms...)
			case "R":
				s.res.Remove(o.Ms...)
			}
		case "pclean":
			if o.Via == "" {
				s.r.Clean()
			} else {
				s.p1.Clean()
			}
		}
	})
}

func buildC09(cfg RouterCfg, ops []mwOp) (*c09Sys, *onion, string) {
	s := newC09Sys(cfg)
	m := newOnion(cfg.Trace)
	for _, o := range ops {
		if v, bad := s.apply(o); bad {
			return s, m, fmt.Sprintf("%s panicked: %v", o, v)
		}
		m.apply(o, false)
	}
	return s, m, ""
}

func mwStrings(ops []mwOp) []string {
	s := make([]string, len(ops))
	for i, o := range ops {
		s[i] = o.String()
	}
	return s
}

// checkChain verifies trail and factory arguments of the handler that served o.
func checkChain(log *hv.Log, h *hv.H, want []string, method, pattern, router string) (class, obs, exp string) {
	got := h.Trail()
	if strings.Join(got, ",") != strings.Join(want, ",") {
		return "order", "trail (outermost first) " + strings.Join(got, ","), strings.Join(want, ",")
	}
	for x := h; x != nil && x.Inner != nil; x = x.Inner {
		fc, ok := log.ByH[x]
		if !ok {
			return "factory-count", "wrapper " + x.ID + " was not produced by a recorded factory call", "exactly one factory invocation per wrapped handler"
		}
		if fc.Method != method || fc.Pattern != pattern || fc.Router != router {
			return "factory-args", fmt.Sprintf("factory %s got (method=%q, pattern=%q, router=%q)", fc.MW, fc.Method, fc.Pattern, fc.Router), fmt.Sprintf("(method=%q, pattern=%q, router=%q)", method, pattern, router)
		}
	}
	return "", "", ""
}

func c09Check(cfg RouterCfg, hist []mwOp, s *c09Sys, m *onion, c *explore.Child, outc map[string]struct{}) {
	hs := mwStrings(hist)
	rep := func(class, probe, obs, exp string, q hv.Req) {
		c.Viols = append(c.Viols, explore.Violation{Property: "C09", Clause: "C09.onion", Class: class, Config: cfg.String() + " P1=Prefix(/p,D) P2=P1.Prefix(/q,E,F) R=P1.Resource(/r/{id},G)", History: hs, Probe: probe, Observed: obs, Expected: exp})
	}
	serve := func(q hv.Req, kind string, want []string, method, pattern string) {
		var served *hv.H
		o := hv.ServeCapture(s.r, q, &served)
		c.Probes++
		outc[fmt.Sprintf("%s/%d", kind, len(o.Trail))] = struct{}{}
		if o.Paniced {
			rep("panic:"+shortPanic(o.Panic), q.String(), fmt.Sprintf("panic: %v", o.Panic), "no panic", q)
			return
		}
		if o.Kind != kind {
			rep("wrong-handler-kind", q.String(), o.Summary(), "handler kind "+kind, q)
			return
		}
		if class, obs, exp := checkChain(s.log, served, want, method, pattern, "r"); class != "" {
			if (kind == "OPT" || kind == "405") && class == "order" && pattern != "" {
				class = "missing-on-auto-handler"
				if len(o.Trail) >= len(want) {
					class = "order-auto-handler"
				}
			}
			rep(class, q.String()+" ("+kind+")", obs, exp, q)
		}
	}
	for pat, r := range m.routes {
		w := Witness(ref.MustParse(pat, ref.Interceptors{}))
		for meth, list := range r.methods {
			serve(hv.Req{Method: meth, Path: w}, "route", m.trail(list), meth, pat)
			if meth == "GET" {
				serve(hv.Req{Method: "HEAD", Path: w}, "route", m.trail(list), "HEAD", pat)
			}
		}
		serve(hv.Req{Method: "OPTIONS", Path: w}, "OPT", m.trail(r.first), "OPTIONS", pat)
		serve(hv.Req{Method: "BOGUS", Path: w}, "405", m.trail(r.first), "", pat)
	}
	serve(hv.Req{Method: "GET", Path: "/nowhere"}, "404", m.trail(nil), "", "")
	serve(hv.Req{Method: "OPTIONS", Path: "*"}, "OPT", m.trail(nil), "OPTIONS", "")
	serve(hv.Req{Method: "GET", Path: "*"}, "405", m.trail(nil), "", "")
	if cfg.Trace {
		serve(hv.Req{Method: "TRACE", Path: "/nowhere"}, "TRACE", m.trail(nil), "TRACE", "")
		serve(hv.Req{Method: "TRACE", Path: "/x"}, "TRACE", m.trail(nil), "TRACE", "")
	}
}

type c09Cfg struct {
	Router RouterCfg `json:"router"`
	Group  bool      `json:"group"`
}

func c09Expand(raw json.RawMessage) (any, error) {
	var in explore.ExpandIn
	if err := json.Unmarshal(raw, &in); err != nil {
		return nil, err
	}
	var cfg c09Cfg
	json.Unmarshal(in.Cfg, &cfg)
	if cfg.Group {
		return c09GroupExpand(in, cfg)
	}
	alpha := c09Alphabet()
	hist := make([]mwOp, len(in.History))
	for i, k := range in.History {
		hist[i] = alpha[k]
	}
	ps, pm, perr := buildC09(cfg.Router, hist)
	if perr != "" {
		return nil, fmt.Errorf("parent not replayable: %s", perr)
	}
	var kids []explore.Child
	if len(hist) == 0 && in.Want(-1) {
		c := explore.Child{Op: -1}
		outc := map[string]struct{}{}
		c09Check(cfg.Router, nil, ps, pm, &c, outc)
		c.Key = explore.Key(ps.r) + "|" + pm.String()
		c.Outcomes = keys(outc)
		kids = append(kids, c)
	}
	for k, op := range alpha {
		if !pm.apply(op, true) || !in.Want(k) {
			continue
		}
		full := append(append([]mwOp{}, hist...), op)
		s, m, _ := buildC09(cfg.Router, hist)
		c := explore.Child{Op: k}
		calls0 := len(s.log.Calls)
		if v, bad := s.apply(op); bad {
			c.Viols = append(c.Viols, explore.Violation{Property: "C09", Clause: "C09.no-panic", Class: "op-panic", Config: cfg.Router.String(), History: mwStrings(full), Observed: fmt.Sprintf("%s panicked: %v", op, v), Expected: "no panic"})
			c.Key, c.NoExpand = "panic:"+explore.Key(s.r), true
			kids = append(kids, c)
			continue
		}
		// factory invocation count of this step
		wantCalls := c09ExpectedCalls(m, op, cfg.Router.Trace)
		m.apply(op, false)
		if got := len(s.log.Calls) - calls0; got != wantCalls {
			c.Viols = append(c.Viols, explore.Violation{Property: "C09", Clause: "C09.factory-once", Class: "factory-count", Config: cfg.Router.String(), History: mwStrings(full), Probe: op.String(),
				Observed: fmt.Sprintf("%d factory invocations", got), Expected: fmt.Sprintf("%d (one per middleware per wrapped handler)", wantCalls)})
		}
		outc := map[string]struct{}{}
		c09Check(cfg.Router, full, s, m, &c, outc)
		c.Viols = smallestPerSig(c.Viols)
		c.Key = explore.Key(s.r) + "|" + m.String()
		c.Outcomes = keys(outc)
		if len(hist) == 1 && k < 2 {
			c.Sample = map[string]any{"program": mwStrings(full), "model": m.String()}
		}
		kids = append(kids, c)
	}
	return kids, nil
}

// c09ExpectedCalls counts the factory invocations op must cause in model state m (before the op).
func c09ExpectedCalls(m *onion, o mwOp, trace bool) int {
	switch o.K {
	case "use":
		n := 3 // 404, OPTIONS *, 405 of the '*' node
		if trace {
			n++
		}
		for _, r := range m.routes {
			n += 2 // OPTIONS, 405
			for meth := range r.methods {
				n++
				if meth == "GET" {
					n++
				}
			}
		}
		return n * len(o.Use)
	case "handle":
		t := len(o.Route) + len(facadeMW[o.Via]) + len(m.use)
		ms := o.Ms
		if len(ms) == 0 {
			ms = ref.AnyMethods
		}
		n := 0
		for _, x := range ms {
			n++
			if x == "GET" {
				n++
			}
		}
		if m.routes[facadePrefix[o.Via]+o.P] == nil {
			n += 2
		}
		return n * t
	}
	return 0
}

// ---- group level ----

func c09GroupAlphabet() []mwOp {
	return []mwOp{
		{K: "guse", Use: []string{"A"}},
		{K: "guse", Use: []string{"B", "C"}},
		{K: "gnew", Name: "r1"},
		{K: "gadd", Name: "r2", Use: []string{"Z"}},
		{K: "ruse", Name: "r1", Use: []string{"Y"}},
		{K: "rhandle", Name: "r1", P: "/x", Ms: []string{"GET"}, Route: []string{"M1"}},
		{K: "rhandle", Name: "r2", P: "/x", Ms: []string{"GET"}},
		{K: "gremove", Name: "r1"},
		{K: "gnew", Name: "r3"},
		{K: "ruse", Name: "r3", Use: []string{"X"}},
		{K: "rhandle", Name: "r3", P: "/x", Ms: []string{"GET"}},
	}
}

type gsys struct {
	g    *mux.Group[*hv.H]
	log  *hv.Log
	rs   map[string]*Router
	muse []string            // model: group Use list
	ruse map[string][]string // model: per router Use list (own + inherited), in order
	rts  map[string]map[string][]string
	live map[string]bool
}

func buildGroup(cfg RouterCfg, ops []mwOp) (*gsys, string) {
	s := &gsys{log: &hv.Log{ByH: map[*hv.H]hv.FactoryCall{}}, rs: map[string]*Router{}, ruse: map[string][]string{}, rts: map[string]map[string][]string{}, live: map[string]bool{}}
	s.g = newGroup(cfg.Options()...)
	for _, o := range ops {
		if v, bad := s.apply(o); bad {
			return s, fmt.Sprintf("%s panicked: %v", o, v)
		}
	}
	return s, ""
}

func (s *gsys) enabled(o mwOp) bool {
	switch o.K {
	case "gnew", "gadd":
		return s.rs[o.Name] == nil
	case "ruse", "rhandle":
		if s.rs[o.Name] == nil {
			return false
		}
		if o.K == "rhandle" && s.rts[o.Name][o.P] != nil {
			return false
		}
	case "gremove":
		return s.live[o.Name]
	}
	return true
}

func (s *gsys) apply(o mwOp) (any, bool) {
	return Guard(func() {
		switch o.K {
		case "guse":
			s.g.Use(spare(s.log, o.Use)...)
			s.muse = append(s.muse, o.Use...)
			for n := range s.live {
				s.ruse[n] = append(s.ruse[n], o.Use...)
			}
		case "gnew":
			s.rs[o.Name] = s.g.New(o.Name, mux.NewHosts(false, o.Name+".com"))
			s.ruse[o.Name] = append([]string{}, s.muse...)
			s.rts[o.Name] = map[string][]string{}
			s.live[o.Name] = true
		case "gadd":
			r := NewRouter(RouterCfg{Name: o.Name, Trace: false})
			r.Use(mws(s.log, o.Use)...)
			s.g.Add(mux.NewHosts(false, o.Name+".com"), r)
			s.rs[o.Name] = r
			s.ruse[o.Name] = append(append([]string{}, o.Use...), s.muse...)
			s.rts[o.Name] = map[string][]string{}
			s.live[o.Name] = true
		case "ruse":
			s.rs[o.Name].Use(spare(s.log, o.Use)...)
			s.ruse[o.Name] = append(s.ruse[o.Name], o.Use...)
		case "rhandle":
			s.rs[o.Name].Handle(o.P, hv.Route("h:"+o.Name+o.P), spare(s.log, o.Route), o.Ms...)
			l := o.Route
			if l == nil {
				l = []string{}
			}
			s.rts[o.Name][o.P] = l
		case "gremove":
			s.g.Remove(o.Name)
			delete(s.live, o.Name)
		}
	})
}

// expectedCalls is the number of factory invocations op must cause: one per middleware per wrapped handler.
// A router without trace has 3 handlers of its own (404, OPTIONS *, the '*' 405) plus 4 per GET route.
func (s *gsys) expectedCalls(o mwOp) int {
	handlers := func(n string) int { return 3 + 4*len(s.rts[n]) }
	switch o.K {
	case "guse":
		n := 1 // the group's not-found handler
		for r := range s.live {
			n += handlers(r)
		}
		return n * len(o.Use)
	case "gnew":
		return 3 * len(s.muse)
	case "gadd":
		return 3*len(o.Use) + 3*len(s.muse)
	case "ruse":
		return handlers(o.Name) * len(o.Use)
	case "rhandle":
		return 4 * (len(o.Route) + len(s.ruse[o.Name]))
	}
	return 0
}

func (s *gsys) modelString() string {
	var b strings.Builder
	b.WriteString("guse=" + strings.Join(s.muse, ","))
	ns := make([]string, 0, len(s.rs))
	for n := range s.rs {
		ns = append(ns, n)
	}
	sort.Strings(ns)
	for _, n := range ns {
		fmt.Fprintf(&b, ";%s live=%v use=%s routes=%v", n, s.live[n], strings.Join(s.ruse[n], ","), s.rts[n])
	}
	return b.String()
}

func (s *gsys) check(cfg RouterCfg, hist []mwOp, c *explore.Child, outc map[string]struct{}) {
	hs := mwStrings(hist)
	rep := func(class, probe, obs, exp string, q hv.Req) {
		c.Viols = append(c.Viols, explore.Violation{Property: "C09", Clause: "C09.group", Class: class, Config: "group " + cfg.String(), History: hs, Probe: probe, Observed: obs, Expected: exp})
	}
	serve := func(q hv.Req, kind string, want []string, method, pattern, router string) {
		var served *hv.H
		o := hv.ServeCapture(s.g, q, &served)
		c.Probes++
		outc[fmt.Sprintf("g/%s/%s/%d", router, kind, len(o.Trail))] = struct{}{}
		if o.Paniced {
			rep("panic:"+shortPanic(o.Panic), q.String(), fmt.Sprintf("panic: %v", o.Panic), "no panic", q)
			return
		}
		if o.Kind != kind || o.Router != router {
			rep("group-wrong-handler", q.String(), o.Summary(), "handler kind "+kind+" of router "+router, q)
			return
		}
		if class, obs, exp := checkChain(s.log, served, want, method, pattern, router); class != "" {
			rep("group-"+class, q.String()+" ("+kind+" of "+router+")", obs, exp, q)
		}
	}
	for n := range s.rs {
		host := n + ".com"
		if !s.live[n] {
			serve(hv.Req{Method: "GET", Path: "/x", Host: host}, "404", rev(s.muse), "", "", "")
			continue
		}
		for p, l := range s.rts[n] {
			tr := append(rev(s.ruse[n]), rev(l)...)
			serve(hv.Req{Method: "GET", Path: p, Host: host}, "route", tr, "GET", p, n)
			serve(hv.Req{Method: "OPTIONS", Path: p, Host: host}, "OPT", tr, "OPTIONS", p, n)
			serve(hv.Req{Method: "POST", Path: p, Host: host}, "405", tr, "", p, n)
		}
		serve(hv.Req{Method: "GET", Path: "/nowhere", Host: host}, "404", rev(s.ruse[n]), "", "", n)
	}
	serve(hv.Req{Method: "GET", Path: "/x", Host: "other.com"}, "404", rev(s.muse), "", "", "")
}

func c09GroupExpand(in explore.ExpandIn, cfg c09Cfg) (any, error) {
	alpha := c09GroupAlphabet()
	hist := make([]mwOp, len(in.History))
	for i, k := range in.History {
		hist[i] = alpha[k]
	}
	ps, perr := buildGroup(cfg.Router, hist)
	if perr != "" {
		return nil, fmt.Errorf("parent not replayable: %s", perr)
	}
	var kids []explore.Child
	for k, op := range alpha {
		if !ps.enabled(op) || !in.Want(k) {
			continue
		}
		full := append(append([]mwOp{}, hist...), op)
		s, _ := buildGroup(cfg.Router, hist)
		c := explore.Child{Op: k}
		wantCalls, calls0 := s.expectedCalls(op), len(s.log.Calls)
		if v, bad := s.apply(op); bad {
			c.Viols = append(c.Viols, explore.Violation{Property: "C09", Clause: "C09.no-panic", Class: "group-op-panic", History: mwStrings(full), Observed: fmt.Sprintf("%s panicked: %v", op, v), Expected: "no panic"})
			c.Key, c.NoExpand = "panic:"+explore.Key(s.g), true
			kids = append(kids, c)
			continue
		}
		if got := len(s.log.Calls) - calls0; got != wantCalls {
			c.Viols = append(c.Viols, explore.Violation{Property: "C09", Clause: "C09.factory-once", Class: "group-factory-count", Config: "group " + cfg.Router.String(), History: mwStrings(full), Probe: op.String(),
				Observed: fmt.Sprintf("%d factory invocations", got), Expected: fmt.Sprintf("%d (one per middleware per wrapped handler)", wantCalls)})
		}
		outc := map[string]struct{}{}
		s.check(cfg.Router, full, &c, outc)
		c.Viols = smallestPerSig(c.Viols)
		c.Key = explore.Key(s.g) + "|" + s.modelString()
		c.Outcomes = keys(outc)
		kids = append(kids, c)
	}
	return kids, nil
}

func init() {
	explore.RegisterJob("c09/expand", c09Expand)
	explore.Register(&explore.Check{ID: "C09", Run: func(rc *explore.RunCtx) {
		depth, gdepth := 5, 5
		if !rc.Quick() {
			depth, gdepth = 6, 6
		}
		rc.Set("depth_bound", depth)
		rc.Set("group_depth_bound", gdepth)
		rc.Assume = append(rc.Assume,
			"programs: every sequence of configuration calls up to the depth bound over {Use(A), Use(B,C), registrations through Router / Prefix(/p,D) / nested Prefix(/q,E,F) / Resource(/r/{id},G) with per-route middlewares, second registrations on live patterns, Remove, Prefix.Clean}, with and without WithTrace; group programs over {Group.Use, Group.New, Group.Add(router with own Use), Router.Use, Handle, Remove}",
			"for every handler kind of every live pattern (each method, HEAD, OPTIONS, 405) and for 404, TRACE, OPTIONS *, the '*' 405 and the group's not-found: the request-time wrapper chain must equal the documented order, each wrapper must come from exactly one recorded factory call with the right (method, pattern, router), and each step must cause exactly the predicted number of factory calls")
		for _, cfg := range []RouterCfg{{}, {Trace: true}} {
			explore.BFS(rc, "c09/expand", c09Cfg{Router: cfg}, depth, true, "C09 "+cfg.String())
		}
		explore.BFS(rc, "c09/expand", c09Cfg{Group: true}, gdepth, true, "C09 group")
	}})
}
