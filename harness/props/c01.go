package props

import (
	"encoding/json"
	"fmt"
	"sort"
	"strings"

	"verifharness/explore"
	"verifharness/hv"
	"verifharness/ref"
)

// ---- C01 (dispatch soundness) and C02 (documented priority) ----
//
// Both run on the same exploration: ordered tables over the dispatch pool D ×
// a probe set closed under the distinctions the matcher makes. C01 checks the
// answer (independent of any prediction); C02 compares it with ref.Resolve.

// dispatch pool D (DESIGN §4). Patterns with interceptor rules are only
// meaningful in I1/I2; in I0 the same text is a regexp, which is fine too.
var poolStatic = []string{"/", "/a", "/ab", "/abc", "/b", "/a/b", "/a/b/c", "a"}
var poolNamed = []string{"/{x}", "/{x}/b", "/{x}/bc", "/a/{x}", "/a/{x}/{y}", "/a/{x}/{y}/c", "/a/{x}-{y}", "/a/{x}-{y}.h", "/a{x}", "/{-x}/b", "/a/{-x}/{y}", "/a/{y}/{-x}", "/a/{x}/", "/a/{z}/bd", "/{xy}/c", "/a/{xy}/d", "/a/{x}/bc", "{x}.h",
	"/a/{x}/b}", "/a}{x}"} // a '}' in literal text: after a parameter's suffix, and right before a parameter
var poolRegexp = []string{`/{x:\d+}`, `/a/{x:\d+}`, `/a/{x:\d+}.h`, `/a/{x:\d*}`, `/a/{x}/{y:\d+}`, `/a/{x:[ab]+}/b`, `/a/{-x:\d+}/c`, `/a/{x:\d+}/bc`, `/a/{x:\d}/q`, `/a/{x:\d+}/bd`, `/a/{-x:a|b}/c`, `/a/{x:a|ab}`,
	// rules with more than one admissible capture before their literal: lazy quantifier, ordered alternation (leftmost-first, never widened)
	`/{x:.+?}/b`, `/a/{x:a|ab}b`,
	// literal text after a regexp parameter in which two routes share the first bytes of a multi-byte character
	"/a/{x:\\d+}/\u4e2d", "/a/{x:\\d+}/\u4e3d",
	// a rule whose values contain the literal that follows the parameter: the first occurrence is refused, a later one taken
	`/a/{x:\d+-\d+}-{y}`,
	// a regexp sibling that also accepts the literal text of /a/{x}/bc: registered after it (the literal is what is
	// left of a split parameter node) or before it, the literal wins
	`/a/{x}/{y:\w+}`,
	"/a/{x:.+}\u00e9"}
var poolGreedy = []string{`/{x:.+}/b`}
var poolIcpt = []string{"/a/{x:digit}", "/a/{x:digit}/b", "/{x:word}/b", "/a/{x:any}", "/a/{-x:digit}/c", "/a/b{-x:digit}", "/a/{x:any}bb", "/a/{x:digit}/cd", "/a/{x:digit}/ce", "/a/{x:range}-{y}", "/a/{x:range}-b", "/a/{x}/{y:word}",
	"/a/{x:any}\u00e9"} // a multi-byte literal after a constrained parameter whose value may contain it: the occurrence at 0 is refused (empty), a later one taken
var indexBlock = []string{"/c", "/d", "/e", "/f", "/g"}

func poolD(ic string, tier string) []string {
	var d []string
	d = append(d, poolStatic...)
	d = append(d, poolNamed...)
	d = append(d, poolRegexp...)
	if ic != "" {
		d = append(d, poolIcpt...)
	}
	d = append(d, poolGreedy...) // a rule able to consume its own following literal text: shortest accepted text all the same
	return d
}

var paramValues = []string{"", "1", "12", "a", "b", "z", "1/b", "1-2", "a/b", "a-b", "1.h", "ab", "1bb", "1-12-b", "abb", "a/b/b", "*", "\u0661", "\u00e9", "a\nb", "18446744073709551616", "/b"} // "/b": a value that is itself the literal text following {x:.+} - the first occurrence is refused, the second taken // a non-ASCII digit and letter; a line feed ('.' in a rule does not match it)

// probeSet builds the finite probe set of a table.
func probeSet(pats []*ref.Pattern, maxLen int) []string {
	sigma := map[byte]bool{'1': true, 'z': true}
	noSlash := false
	for _, p := range pats {
		if p.Src[0] != '/' {
			noSlash = true
		}
		for _, t := range p.Tokens {
			if t.Kind == ref.Lit {
				for i := 0; i < len(t.Text); i++ {
					sigma[t.Text[i]] = true
				}
			}
		}
	}
	var sg []byte
	for b := range sigma {
		sg = append(sg, b)
	}
	sort.Slice(sg, func(i, j int) bool { return sg[i] < sg[j] })
	seen := map[string]bool{}
	var out []string
	add := func(s string) {
		if !seen[s] {
			seen[s] = true
			out = append(out, s)
		}
	}
	// 1. all strings "/"+Σ^≤maxLen-1 (and without the slash when a pattern has none)
	var gen func(prefix string, n int)
	gen = func(prefix string, n int) {
		add(prefix)
		if n == 0 {
			return
		}
		for _, b := range sg {
			gen(prefix+string(b), n-1)
		}
	}
	gen("/", maxLen-1)
	for _, s := range []string{"*", "*a", "*/a", "*/", "**", "*.h"} { // only "*" itself is the server-wide target
		add(s)
	}
	if noSlash {
		gen("a", maxLen-2)
		add("z")
	}
	// 2. instantiations
	for _, p := range pats {
		names := p.AllNames()
		vals := paramValues
		if len(names) == 2 {
			vals = paramValues[:8]
		} else if len(names) >= 3 {
			vals = paramValues[:4]
		}
		var inst func(i int, m map[string]string)
		var base []string
		inst = func(i int, m map[string]string) {
			if i == len(names) {
				s, _ := p.Instantiate(m)
				add(s)
				primary := true
				for _, n := range names {
					if v := m[n]; v != "1" && v != "a" && v != "12" {
						primary = false
					}
				}
				if primary {
					base = append(base, s)
				}
				return
			}
			for _, v := range vals {
				m[names[i]] = v
				inst(i+1, m)
			}
		}
		inst(0, map[string]string{})
		// 3. edit-distance-1 neighbours of the primary instantiations
		for _, s := range base {
			for i := 0; i <= len(s); i++ {
				if i < len(s) {
					add(s[:i] + s[i+1:])
				}
				for _, b := range sg {
					add(s[:i] + string(b) + s[i:])
					if i < len(s) && s[i] != b {
						add(s[:i] + string(b) + s[i+1:])
					}
				}
			}
		}
	}
	return out
}

var allMethods = []string{"GET", "HEAD", "POST", "PUT", "DELETE", "PATCH", "OPTIONS", "CONNECT", "TRACE", "BOGUS", "get", ""}

// checkSoundness is the C01 oracle for one observation.
func checkSoundness(t *ref.Table, q hv.Req, o *hv.Obs) (class, observed, expected string) {
	if o.Paniced {
		return "panic:" + shortPanic(o.Panic), fmt.Sprintf("panic: %v", o.Panic), "no panic"
	}
	if o.Called != 1 {
		return "callfunc-count", fmt.Sprintf("CallFunc invoked %d times", o.Called), "exactly once"
	}
	if o.ParamsBad != "" {
		return "params-accessors", o.ParamsBad, "accessors agree"
	}
	if o.Kind == "TRACE" && t.Trace && q.Method == "TRACE" {
		return "", "", ""
	}
	if o.Kind == "404" {
		if len(o.Params) != 0 {
			return "404-with-params", o.Summary(), "a 404 reports no route parameters"
		}
		if !o.NodeNil {
			return "404-with-node", o.Summary(), "a 404 reports no route"
		}
		return "", "", ""
	}
	if o.NodeNil {
		return "handler-without-node", o.Summary(), "a matched route reports its node"
	}
	if q.Path == "*" || q.Path == "" {
		// the server-wide pseudo route (OPTIONS *): not a registered pattern; C04/C05 cover it.
		if o.Pattern != "" || len(o.Params) != 0 || (o.Kind != "OPT" && o.Kind != "405") {
			return "star-path-routed", o.Summary(), "'*' and the empty path are answered by the server-wide OPTIONS/405 node"
		}
		return "", "", ""
	}
	r := t.Routes[o.Pattern]
	if r == nil {
		return "dead-or-unknown-pattern", o.Summary(), "reported pattern is live; live: " + strings.Join(t.Patterns(), " ")
	}
	want := ""
	switch {
	case q.Method == "HEAD" && r.Methods["GET"] != "":
		want = r.Methods["GET"]
	case q.Method == "OPTIONS":
		want = "OPT"
	case r.Methods[q.Method] != "" && q.Method != "HEAD":
		want = r.Methods[q.Method]
	default:
		want = "405"
	}
	if o.CoreID != want {
		return "foreign-handler", o.Summary(), "handler " + want + " of " + o.Pattern
	}
	if (o.Kind == "405" || o.Kind == "OPT") && o.HNodePat != o.Pattern {
		return "auto-handler-of-other-node", o.Summary() + " built-for=" + o.HNodePat, "405/OPTIONS handler of " + o.Pattern
	}
	// exactly the capturing names
	names := r.P.Names()
	if len(o.Params) != len(names) {
		extra, missing := diffNames(o.Params, names)
		if len(extra) > 0 {
			return "stale-after-backtrack", o.Summary(), "exactly the parameters " + strings.Join(names, ",")
		}
		_ = missing
		return "lost-after-backtrack", o.Summary(), "exactly the parameters " + strings.Join(names, ",")
	}
	for _, n := range names {
		if _, ok := o.Params[n]; !ok {
			return "lost-after-backtrack", o.Summary(), "exactly the parameters " + strings.Join(names, ",")
		}
	}
	if why := r.P.Explain(q.Path, o.Params); why != "" {
		class := "literal-mismatch"
		if strings.Contains(why, "rejected by") {
			class = "value-rejects-constraint"
		}
		return class, o.Summary(), "path = pattern with parameters substituted; " + why
	}
	return "", "", ""
}

func diffNames(got map[string]string, want []string) (extra, missing []string) {
	w := map[string]bool{}
	for _, n := range want {
		w[n] = true
		if _, ok := got[n]; !ok {
			missing = append(missing, n)
		}
	}
	for k := range got {
		if !w[k] {
			extra = append(extra, k)
		}
	}
	return
}

// c02Class refines a CheckDispatch mismatch into the classes of DESIGN §4/C02.
func c02Class(base string, t *ref.Table, path string, o *hv.Obs, e Expect) string {
	// a regexp rule able to consume its own following literal text
	for _, p := range t.Parsed() {
		for i := range p.Tokens {
			tk := &p.Tokens[i]
			if tk.Kind == ref.Regexp && i+1 < len(p.Tokens) && !strings.Contains(tk.Rule, "?") && !strings.Contains(tk.Rule, "|") {
				if tk.Accepts(p.Tokens[i+1].Text[:1]) || tk.Accepts("x"+p.Tokens[i+1].Text[:1]) {
					if o.Pattern == p.Src || base == "404-but-model-serves" || base == "wrong-params" {
						return "greedy-regexp"
					}
				}
			}
		}
	}
	return base
}

type tableItem struct {
	Mode   string    `json:"mode"` // C01 | C02
	Router RouterCfg `json:"router"`
	Tier   string    `json:"tier"`
	First  int       `json:"first"` // index of the first pattern of every table of this item
	Size   int       `json:"size"`  // max table size
	Pool   []string  `json:"pool"`
	MaxLen int       `json:"maxlen"`
	// replay: only this ordered table (indices into Pool) and this index-block setting
	Only      []int `json:"only,omitempty"`
	// Lead: Pool indices registered first, in this order, in front of every table of the item (they do not count
	// towards Size)
	Lead []int `json:"lead,omitempty"`
	OnlyBlock *bool `json:"onlyblock,omitempty"`
	// positions 3.. of a table only take patterns with these Pool indices (nil = all)
	Deep []int `json:"deep,omitempty"`
}

type tableOut struct {
	Tables   int64               `json:"tables"`
	Probes   int64               `json:"probes"`
	Viols    []explore.Violation `json:"viols"`
	Outcomes []string            `json:"outcomes"`
	Sample   any                 `json:"sample"`
}

func buildTable(cfg RouterCfg, pats []string, block bool) (*Router, *ref.Table, string) {
	var ops []Op
	if block {
		ops = append(ops, Op{K: "multi", Ps: indexBlock, Ms: []string{"GET"}})
	}
	for _, p := range pats {
		ops = append(ops, Op{K: "handle", P: p, Ms: []string{"GET"}})
	}
	return buildHistory(cfg, ops)
}

func tableJob(raw json.RawMessage) (any, error) {
	var it tableItem
	if err := json.Unmarshal(raw, &it); err != nil {
		return nil, err
	}
	out := &tableOut{}
	outc := map[string]struct{}{}
	ic := Interceptors(it.Router.IC)
	parsed := make([]*ref.Pattern, len(it.Pool))
	for i, p := range it.Pool {
		parsed[i] = ref.MustParse(p, ic)
	}
	blockParsed := make([]*ref.Pattern, len(indexBlock))
	for i, p := range indexBlock {
		blockParsed[i] = ref.MustParse(p, ic)
	}
	var rec func(idx []int)
	visit := func(idx []int) {
		pats := make([]string, len(idx))
		for i, k := range idx {
			pats[i] = it.Pool[k]
		}
		// skip tables the model rejects (ambiguous pairs) – C17 covers those
		mt := ref.NewTable(ic, false)
		for _, p := range pats {
			if v, _ := mt.Judge(p, []string{"GET"}); v != ref.Accept {
				return
			}
			mt.Handle(p, "", nil, "GET")
		}
		for _, block := range []bool{false, true} {
			if it.OnlyBlock != nil && *it.OnlyBlock != block {
				continue
			}
			narrowed := it
			narrowed.Only, narrowed.OnlyBlock = append([]int{}, idx...), &block
			replay := explore.ItemReplay("c01/tables", narrowed)
			r, t, perr := buildTable(it.Router, pats, block)
			hist := append([]string{}, pats...)
			if block {
				hist = append([]string{"+index-block(/c../g)"}, hist...)
			}
			if perr != "" {
				out.Viols = append(out.Viols, explore.Violation{Property: it.Mode, Clause: it.Mode + ".no-panic", Class: "handle-panic", Config: it.Router.String(), History: hist, Observed: perr, Expected: "registration of a well-formed, unambiguous pattern succeeds", Replay: replay})
				continue
			}
			out.Tables++
			ps := t.Parsed()
			probes := probeSet(ps, it.MaxLen)
			wit := map[string]bool{}
			for _, p := range ps {
				wit[Witness(p)] = true
			}
			for _, path := range probes {
				methods := allMethods[:1]
				if wit[path] {
					methods = allMethods
				}
				var e Expect
				if it.Mode == "C02" {
					e = ExpectFor(t, path)
				}
				for mi, m := range methods {
					q := hv.Req{Method: m, Path: path}
					if wit[path] && mi%2 == 1 {
						// what a server hands over for a non-canonically escaped target: Path decoded, RawPath as sent.
						// The request path is URL.Path; the answer must not depend on RawPath.
						q.RawPath = escapeAll(path)
					}
					o := hv.Serve(r, q)
					out.Probes++
					outc[fmt.Sprintf("%d/%s/%s/%d", o.Status, o.Kind, o.Pattern, len(o.Params))] = struct{}{}
					var class, obs, exp string
					if it.Mode == "C01" {
						class, obs, exp = checkSoundness(t, q, o)
					} else {
						class, obs, exp = CheckDispatch(t, q, o, e)
						if class != "" {
							class = c02Class(class, t, path, o, e)
						}
					}
					if class != "" {
						clause := it.Mode + ".dispatch"
						out.Viols = append(out.Viols, explore.Violation{Property: it.Mode, Clause: clause, Class: class, Config: it.Router.String(), History: hist, Probe: q.String(), Observed: obs, Expected: exp, Replay: replay})
					}
				}
			}
			if out.Sample == nil && len(idx) >= 2 {
				out.Sample = map[string]any{"table": hist, "probes": len(probes), "first_probes": probes[:min(6, len(probes))]}
			}
		}
		// keep only the smallest violation per class inside one item
		out.Viols = smallestPerSig(out.Viols)
	}
	rec = func(idx []int) {
		visit(idx)
		if len(idx) == it.Size+len(it.Lead) {
			return
		}
		for k := range it.Pool {
			if len(idx)-len(it.Lead) >= 2 && it.Deep != nil && !containsInt(it.Deep, k) {
				continue
			}
			dup := false
			for _, j := range idx {
				if j == k {
					dup = true
				}
			}
			if !dup {
				rec(append(append([]int{}, idx...), k))
			}
		}
	}
	if it.Only != nil {
		visit(it.Only)
	} else {
		rec(append(append([]int{}, it.Lead...), it.First))
	}
	out.Outcomes = keys(outc)
	return out, nil
}

// escapeAll percent-encodes every byte after the leading slash ("/a/1" -> "/%61%2F%31").
func escapeAll(p string) string {
	var b strings.Builder
	for i := 0; i < len(p); i++ {
		if i == 0 && p[i] == '/' {
			b.WriteByte('/')
			continue
		}
		fmt.Fprintf(&b, "%%%02X", p[i])
	}
	return b.String()
}

func containsInt(l []int, x int) bool {
	for _, y := range l {
		if y == x {
			return true
		}
	}
	return false
}

func smallestPerSig(vs []explore.Violation) []explore.Violation {
	best := map[string]explore.Violation{}
	var order []string
	for _, v := range vs {
		s := v.Sig()
		old, ok := best[s]
		if !ok {
			order = append(order, s)
			best[s] = v
			continue
		}
		if vsize(v) < vsize(old) {
			best[s] = v
		}
	}
	out := make([]explore.Violation, 0, len(order))
	for _, s := range order {
		out = append(out, best[s])
	}
	return out
}

func vsize(v explore.Violation) int {
	n := len(v.History)*1000 + len(v.Probe)
	for _, h := range v.History {
		n += len(h)
	}
	return n
}

func runTables(rc *explore.RunCtx, mode string) {
	type plan struct {
		cfg    RouterCfg
		pool   []string
		size   int
		maxLen int
		deep   []string // patterns allowed at positions 3.. (nil = all)
	}
	core := []string{"/a/{x}", "/a/{x}/{y}", "/a/{x}/{y}/c", "/a/{x}-{y}", "/a/{x}/{y:\\d+}", "/a/{x:\\d+}", "/a/{x:\\d+}.h", "/a/b", "/{x}/b", "/a/{x}/", "/a/{z}/bd", "/a/{x:\\d+}/bc", "/a/{x:\\d+}/bd", "/a/{x}/bc", "/{xy}/c", "/{x}"}
	kinds4 := []string{"/a/{x:any}", "/a/{x:digit}", "/a/{x:digit}/b", "/a/{x:\\d+}/bc", "/a/{x:\\d+}/bd", "/a/{x:\\d+}", "/a/{x}/bc", "/a/{x}", "/a/{x}/bd", "/a/b"}
	mini := []string{"/a/{x}", "/a/{x}/{y}", "/a/{x}/{y}/c", "/a/{x:\\d+}", "/a/b", "/{x}/b", "/a/{x}/bc", "/a/{z}/bd"}
	var plans []plan
	if rc.Quick() {
		for _, ic := range []string{"", "I1", "I2"} {
			plans = append(plans, plan{RouterCfg{IC: ic}, poolD(ic, "quick"), 2, 4, nil})
		}
		// triples from the most interacting patterns
		plans = append(plans, plan{RouterCfg{}, core[:13], 3, 4, nil})
		// ... and triples mixing all four kinds at one position (nodes with and without children, end-of-pattern
		// parameters): the same-position priority must hold whatever the shapes of the competing nodes
		plans = append(plans, plan{RouterCfg{IC: "I1"}, kinds4, 3, 4, nil})
	} else {
		for _, ic := range []string{"", "I1", "I2"} {
			plans = append(plans, plan{RouterCfg{IC: ic}, poolD(ic, "thorough"), 3, 5, append(append([]string{}, core...), kinds4[:3]...)})
		}
		plans = append(plans, plan{RouterCfg{}, mini, 4, 4, nil})
	}
	var items []tableItem
	// a node with five or more children none of which is literal (its first-byte index exists and is empty): five
	// constrained parameter siblings below /a/ in front of every table over the patterns that live there
	pblock := []string{`/a/{b:[a-z]+}/q`, `/a/{c:[A-Z]+}/r`, `/a/{d:[.]+}/s`, `/a/{e:[,]+}/t`, `/a/{f:[;]+}/u`}
	pmini := []string{`/a/{x:\d+}/bc`, `/a/{x:\d+}/bd`, "/a/{x}/bc", "/a/{z}/bd", "/a/{x}/{y}", `/a/{x:\d+}`}
	ppool := append(append([]string{}, pblock...), pmini...)
	for i := range pmini {
		items = append(items, tableItem{Mode: mode, Router: RouterCfg{}, Tier: rc.Tier, First: len(pblock) + i, Size: 3, Pool: ppool, MaxLen: 3, Lead: []int{0, 1, 2, 3, 4}})
	}
	for _, p := range plans {
		var deep []int
		for _, d := range p.deep {
			if k := indexOf(p.pool, d); k >= 0 {
				deep = append(deep, k)
			}
		}
		for i := range p.pool {
			items = append(items, tableItem{Mode: mode, Router: p.cfg, Tier: rc.Tier, First: i, Size: p.size, Pool: p.pool, MaxLen: p.maxLen, Deep: deep})
		}
	}
	rc.Set("table_items", len(items))
	explore.ParMap(rc, "c01/tables", items, func(i int, in tableItem, o tableOut) {
		rc.Add("states", o.Tables)
		rc.Add("transitions", o.Tables) // one build per ordered table
		rc.Add("probes", o.Probes)
		for _, v := range o.Viols {
			rc.Report(v)
		}
		for _, s := range o.Outcomes {
			rc.Outcome(s)
		}
		if o.Sample != nil {
			rc.Sample(o.Sample)
		}
	})
}

// ---- C01 histories with removals ----

var c01HistPool = []string{"/a/{x}", "/a/{x}/{y}", "/a/{x}/{y}/c", "/a/{x}/{y:\\d+}", "/a/{x:\\d+}", "/a/b", "/{x}/b", "/a/{x}-{y}", "/a/{z}/bd", "/c", "/a/{x:\\d+}/bc"}

func c01Alphabet() []Op {
	var ops []Op
	for _, p := range c01HistPool {
		ops = append(ops, Op{K: "handle", P: p, Ms: []string{"GET"}})
	}
	ops = append(ops, Op{K: "handle", P: "/a/{x}", Ms: []string{"POST"}}, Op{K: "multi", Ps: indexBlock, Ms: []string{"GET"}})
	for _, p := range c01HistPool {
		ops = append(ops, Op{K: "remove", P: p})
	}
	ops = append(ops, Op{K: "remove", P: "/a/{x}", Ms: []string{"GET"}}, Op{K: "clean"}, Op{K: "pclean", P: "/a/{x}/"}, Op{K: "pclean", P: "/a/"},
		// rejected registrations leave handler-less nodes behind: they must stay invisible
		Op{K: "reject", P: "/a/{x}/q", Ms: []string{"get"}}, Op{K: "reject", P: "/a/{x}/{y}/zz", Ms: []string{"PATCH", "BOGUS"}}, Op{K: "reject", P: "/a/bq", Ms: []string{"GET", "GET"}})
	return ops
}

func c01Expand(raw json.RawMessage) (any, error) {
	var in explore.ExpandIn
	if err := json.Unmarshal(raw, &in); err != nil {
		return nil, err
	}
	var cfg c03Cfg
	json.Unmarshal(in.Cfg, &cfg)
	alpha := c01Alphabet()
	hist := make([]Op, len(in.History))
	for i, k := range in.History {
		hist[i] = alpha[k]
	}
	_, pt, perr := buildHistory(cfg.Router, hist)
	if perr != "" {
		return nil, fmt.Errorf("parent history not replayable: %s", perr)
	}
	var kids []explore.Child
	for k, op := range alpha {
		if !Enabled(pt, op) || !in.Want(k) {
			continue
		}
		full := append(append([]Op{}, hist...), op)
		hs := opsStrings(full)
		r, t, _ := buildHistory(cfg.Router, hist)
		c := explore.Child{Op: k}
		if v, bad := ApplyImpl(r, op); bad {
			c.Viols = append(c.Viols, explore.Violation{Property: "C01", Clause: "C01.no-panic", Class: "op-panic:" + shortPanic(v), Config: cfg.Router.String(), History: hs,
				Observed: fmt.Sprintf("%s panicked: %v", op, v), Expected: "no panic"})
			c.Key, c.NoExpand = "panic:"+explore.Key(r), true
			kids = append(kids, c)
			continue
		}
		ApplyModel(t, op)
		outc := map[string]struct{}{}
		ps := t.Parsed()
		// probe with the pool's witnesses too: removed patterns must be gone
		all := make([]*ref.Pattern, 0, len(c01HistPool))
		for _, p := range c01HistPool {
			all = append(all, ref.MustParse(p, Interceptors(cfg.Router.IC)))
		}
		_ = ps
		probes := probeSet(all, 3)
		probes = append(probes, "/a/1/q", "/a/1/2/zz", "/a/bq", "/a/1/q/", "/a/1/2/zz/c")
		for _, path := range probes {
			for _, m := range []string{"GET", "POST"} {
				q := hv.Req{Method: m, Path: path}
				o := hv.Serve(r, q)
				c.Probes++
				outc[fmt.Sprintf("%d/%s/%s/%d", o.Status, o.Kind, o.Pattern, len(o.Params))] = struct{}{}
				if class, obs, exp := checkSoundness(t, q, o); class != "" {
					c.Viols = append(c.Viols, explore.Violation{Property: "C01", Clause: "C01.dispatch", Class: class, Config: cfg.Router.String(), History: hs, Probe: q.String(), Observed: obs, Expected: exp})
				}
			}
		}
		c.Viols = smallestPerSig(c.Viols)
		c.Key = explore.Key(r) + "|" + t.String()
		c.Outcomes = keys(outc)
		kids = append(kids, c)
	}
	return kids, nil
}

func init() {
	explore.RegisterJob("c01/tables", tableJob)
	explore.RegisterJob("c01/expand", c01Expand)
	explore.Register(&explore.Check{ID: "C01", Run: func(rc *explore.RunCtx) {
		rc.Assume = append(rc.Assume,
			"ordered tables over the dispatch pool D (with and without the 5-literal index block, interceptor sets I0/I1/I2) up to the stated size; histories with Remove/Clean over a reduced pool up to the stated depth",
			"probe set per table: all strings '/'+Σ^<maxlen over the bytes of the live literal text plus fresh bytes, all instantiations over the value set V, edit-distance-1 neighbours of primary instantiations; all 12 method strings on witness paths",
			"oracle checks the answer itself (ref.Explain), no resolver prediction involved")
		runTables(rc, "C01")
		depth := 3
		if !rc.Quick() {
			depth = 4
		}
		rc.Set("history_depth", depth)
		explore.BFS(rc, "c01/expand", c03Cfg{Router: RouterCfg{}}, depth, true, "C01 histories")
	}})
	explore.Register(&explore.Check{ID: "C02", Run: func(rc *explore.RunCtx) {
		rc.Assume = append(rc.Assume,
			"add-only ordered tables over the dispatch pool D in every registration order (with and without the index block, I0/I1/I2) up to the stated size",
			"oracle: ref.Resolve, an executable statement of the documented left-to-right procedure evaluated on the pattern set (never builds a tree); registration order is not an input of the oracle",
			"probe set as for C01")
		runTables(rc, "C02")
	}})
}
