//go:build verif

package props

import (
	"encoding/json"
	"fmt"
	"sort"
	"strings"

	"github.com/issue9/mux/v9"
	"github.com/issue9/mux/v9/types"

	"verifharness/explore"
	"verifharness/hv"
)

// ---- C06: WithLock(true) - concurrent registration, removal and serving ----

// conOp is one operation of a thread.
type conOp struct {
	K      string            `json:"k"` // handle remove clean pclean serve routes url
	P      string            `json:"p,omitempty"`
	Ms     []string          `json:"ms,omitempty"`
	Req    hv.Req            `json:"req,omitempty"`
	Strict bool              `json:"strict,omitempty"`
	Params map[string]string `json:"params,omitempty"`
	R      int               `json:"r,omitempty"` // which instance (C07)
}

func (o conOp) String() string {
	switch o.K {
	case "handle":
		return fmt.Sprintf("Handle(%q,[%s])", o.P, qjoin(o.Ms))
	case "remove":
		return fmt.Sprintf("Remove(%q,[%s])", o.P, qjoin(o.Ms))
	case "phandle":
		return fmt.Sprintf("Prefix(/pp,D).Handle(%q,callers[:1]...,[%s])", o.P, qjoin(o.Ms))
	case "clean":
		return "Clean()"
	case "pclean":
		return fmt.Sprintf("Prefix(%q).Clean()", o.P)
	case "serve":
		return o.Req.String()
	case "routes":
		return "Routes()"
	case "url":
		return fmt.Sprintf("URL(strict=%v,%q,%v)", o.Strict, o.P, o.Params)
	}
	return o.K
}

// do performs the op on r and returns its observable result.
func (o conOp) do(r *Router) string {
	switch o.K {
	case "handle":
		if v, bad := Guard(func() { r.Handle(o.P, hv.Route(HID(o.P, o.Ms)), nil, o.Ms...) }); bad {
			return fmt.Sprintf("panic(%s)", PanicClass(v))
		}
		return "ok"
	case "phandle":
		// through a Prefix that has a middleware of its own, handing over the caller's list the way an application
		// does: a slice of one longer list (spare capacity behind it) that other goroutines pass as well
		if v, bad := Guard(func() {
			c06Pfx.Handle(o.P, hv.Route(HID("/pp"+o.P, o.Ms)), c06Callers[:1], o.Ms...)
		}); bad {
			return fmt.Sprintf("panic(%s)", PanicClass(v))
		}
		return "ok"
	case "remove":
		if v, bad := Guard(func() { r.Remove(o.P, o.Ms...) }); bad {
			return fmt.Sprintf("panic(%v)", v)
		}
		return "ok"
	case "clean":
		if v, bad := Guard(func() { r.Clean() }); bad {
			return fmt.Sprintf("panic(%v)", v)
		}
		return "ok"
	case "pclean":
		if v, bad := Guard(func() { r.Prefix(o.P).Clean() }); bad {
			return fmt.Sprintf("panic(%v)", v)
		}
		return "ok"
	case "serve":
		ob := hv.Serve(r, o.Req)
		if ob.Paniced {
			return fmt.Sprintf("PANIC(%v)", ob.Panic)
		}
		if ob.NilHandler {
			return "NIL-HANDLER"
		}
		// the response the router is responsible for: status, handler, route, parameters
		return fmt.Sprintf("st=%d h=%s pat=%q ps=%s", ob.Status, ob.HID, ob.Pattern, hv.ParamsString(ob.Params))
	case "routes":
		var s string
		if v, bad := Guard(func() { s = RoutesString(RoutesOf(r)) }); bad {
			return fmt.Sprintf("panic(%v)", v)
		}
		return s
	case "url":
		var s string
		var err error
		if v, bad := Guard(func() { s, err = r.URL(o.Strict, o.P, o.Params) }); bad {
			return fmt.Sprintf("panic(%v)", v)
		}
		if err != nil {
			return "ERR"
		}
		return s
	}
	return "?"
}

// c06Callers is the caller-owned middleware list of the "phandle" operations, made afresh for every execution:
// one element in use, room for three more. mux may read it; the room behind it belongs to the caller.
var c06Callers []types.Middleware[*hv.H]

// c06Pfx is the Prefix object the "phandle" operations share, the way an application keeps `api := r.Prefix(...)`
// around and registers through it from several goroutines; made afresh with the router of every execution.
var c06Pfx *mux.Prefix[*hv.H]

func c06NewCallers(r *Router) {
	c06Callers = make([]types.Middleware[*hv.H], 1, 4)
	c06Callers[0] = hv.MW{Name: "M1"}
	c06Pfx = r.Prefix("/pp", hv.MW{Name: "D"})
}

func c06CallersWritten() string {
	for i, m := range c06Callers[:cap(c06Callers)] {
		if i >= 1 && m != nil {
			return fmt.Sprintf("slot %d behind the caller's one-element list now holds %v", i, m)
		}
	}
	return ""
}

type scenario struct {
	Name    string    `json:"name"`
	Cfg     RouterCfg `json:"cfg"`
	Setup   []Op      `json:"setup"`
	Threads [][]conOp `json:"threads"`
	Bound   int       `json:"bound"`
	MaxExec int64     `json:"maxexec"`
	Only    []int     `json:"only,omitempty"` // replay exactly this schedule
	Prop    string    `json:"prop"`
}

type scenOut struct {
	Execs    int64               `json:"execs"`
	Points   int64               `json:"points"`
	Capped   bool                `json:"capped"`
	BoundOK  int                 `json:"bound_ok"`
	Viols    []explore.Violation `json:"viols"`
	Outcomes []string            `json:"outcomes"`
	Sample   any                 `json:"sample"`
}

type callRec struct {
	thread, idx int
	call, ret   int
	result      string
}

func c06Setup() []Op {
	ops := []Op{
		{K: "handle", P: "/posts/author", Ms: []string{"GET"}},
		{K: "handle", P: "/posts/{id}", Ms: []string{"GET"}},
		{K: "handle", P: "/t", Ms: []string{"GET"}},
		{K: "handle", P: "/rx/{id:\\d+}", Ms: []string{"GET"}}, // a regexp parameter nobody has matched or validated yet
	}
	for _, c := range "abcdef" {
		ops = append(ops, Op{K: "handle", P: "/x/" + string(c), Ms: []string{"GET"}})
	}
	return ops
}

var (
	w1  = conOp{K: "handle", P: "/posts/abc", Ms: []string{"GET"}}
	w2  = conOp{K: "remove", P: "/posts/abc"}
	w3  = conOp{K: "handle", P: "/posts/author", Ms: []string{"POST"}}
	w4a = conOp{K: "remove", P: "/t", Ms: []string{"GET"}}
	w4b = conOp{K: "handle", P: "/t", Ms: []string{"GET"}}
	w5a = conOp{K: "clean"}
	w5b = conOp{K: "pclean", P: "/x"}
	w6  = conOp{K: "remove", P: "/x/a"}
	w7  = conOp{K: "handle", P: "/posts/{id}/c"}                      // Any: extends the parameter node
	w8  = conOp{K: "remove", P: "/posts/author", Ms: []string{"GET"}} // last method of an otherwise untouched route
	w9  = conOp{K: "handle", P: "/n/{id}", Ms: []string{"GET"}}       // w9 and w10 are ambiguous with each other:
	w10 = conOp{K: "handle", P: "/n/{name}", Ms: []string{"GET"}}     // sequentially exactly one of them is rejected
	w11 = conOp{K: "phandle", P: "/a", Ms: []string{"GET"}}           // w11, w12: two goroutines registering below the same
	w12 = conOp{K: "phandle", P: "/b", Ms: []string{"GET"}}           // prefix with the same caller-owned middleware list
	r13 = conOp{K: "serve", Req: hv.Req{Method: "GET", Path: "/pp/a"}}
	r1  = conOp{K: "serve", Req: hv.Req{Method: "GET", Path: "/posts/author"}}
	r2  = conOp{K: "serve", Req: hv.Req{Method: "GET", Path: "/posts/7"}}
	r3  = conOp{K: "serve", Req: hv.Req{Method: "GET", Path: "/t"}}
	r4  = conOp{K: "serve", Req: hv.Req{Method: "OPTIONS", Path: "/posts/author"}}
	r5  = conOp{K: "serve", Req: hv.Req{Method: "GET", Path: "/x/f"}}
	r6  = conOp{K: "routes"}
	r7  = conOp{K: "url", Strict: true, P: "/posts/{id}", Params: map[string]string{"id": "7"}}
	r8  = conOp{K: "url", Strict: false, P: "/posts/{id}", Params: map[string]string{"id": "7"}}
	r9  = conOp{K: "serve", Req: hv.Req{Method: "POST", Path: "/posts/author"}}
	r10 = conOp{K: "url", Strict: true, P: "/posts/author"} // the node a concurrent Handle(/posts/abc) splits
	r11 = conOp{K: "url", Strict: true, P: "/x/f"}
	r12 = conOp{K: "serve", Req: hv.Req{Method: "HEAD", Path: "/posts/author"}}
	r14 = conOp{K: "serve", Req: hv.Req{Method: "GET", Path: "/rx/7"}}
	r15 = conOp{K: "url", Strict: true, P: "/rx/{id:\\d+}", Params: map[string]string{"id": "7"}}
	r16 = conOp{K: "serve", Req: hv.Req{Method: "OPTIONS", Path: "*"}} // answered by the root node, whose method set every registration rewrites
	r17 = conOp{K: "serve", Req: hv.Req{Method: "GET", Path: "*"}}
)

func c06Scenarios(quick bool) []scenario {
	setup := c06Setup()
	cfg := RouterCfg{Lock: true}
	wseq := [][]conOp{{w1}, {w2}, {w3}, {w4a}, {w4b}, {w5a}, {w5b}, {w6}, {w7}, {w8}, {w9}, {w10}, {w1, w2}, {w4a, w4b}, {w3, w6}, {w5a, w4b}}
	rseq := [][]conOp{{r1}, {r2}, {r3}, {r4}, {r5}, {r6}, {r7}, {r8}, {r9}, {r10}, {r11}, {r12}, {r3, r3}, {r1, r2}, {r6, r3}, {r4, r7}}
	var out []scenario
	name := func(ts ...[]conOp) string {
		var parts []string
		for _, t := range ts {
			var s []string
			for _, o := range t {
				s = append(s, o.String())
			}
			parts = append(parts, strings.Join(s, ";"))
		}
		return strings.Join(parts, " || ")
	}
	bound2, bound3 := 2, 2
	if !quick {
		bound2, bound3 = 4, 3
	}
	for _, w := range wseq {
		for _, r := range rseq {
			out = append(out, scenario{Name: name(w, r), Cfg: cfg, Setup: setup, Threads: [][]conOp{w, r}, Bound: bound2, Prop: "C06"})
		}
	}
	for i, w := range wseq[:12] {
		for _, v := range wseq[i:12] {
			out = append(out, scenario{Name: name(w, v), Cfg: cfg, Setup: setup, Threads: [][]conOp{w, v}, Bound: bound2, Prop: "C06"})
		}
	}
	for _, ts := range [][][]conOp{{{w11}, {w12}}, {{w11}, {w11}}, {{w11}, {r13}}, {{w11, r13}, {w12}}, {{w11}, {w1}}, {{w11}, {r6}}} {
		out = append(out, scenario{Name: name(ts...), Cfg: cfg, Setup: setup, Threads: ts, Bound: bound2, Prop: "C06"})
	}
	// readers only: whatever the read paths build lazily under the read lock is shared between them
	for i, a := range rseq[:12] {
		for _, b := range rseq[i:11] {
			out = append(out, scenario{Name: name(a, b), Cfg: cfg, Setup: setup, Threads: [][]conOp{a, b}, Bound: bound2, Prop: "C06"})
		}
	}
	// ... in particular the first two uses of a regexp parameter (matching, validating), and two strict URLs of
	// different patterns (anything URL keeps per tree rather than per call)
	for _, ts := range [][][]conOp{{{r14}, {r14}}, {{r14}, {r15}}, {{r15}, {r15}}, {{r7}, {r11}}, {{r15}, {r7}}, {{r15}, {r10}}, {{w1}, {r14}}, {{w3}, {r15}}, {{w1}, {r16}}, {{w3}, {r16}}, {{w6}, {r16}}, {{w5a}, {r16}}, {{w3}, {r17}}, {{w2}, {r16}}} {
		out = append(out, scenario{Name: name(ts...), Cfg: cfg, Setup: setup, Threads: ts, Bound: bound2, Prop: "C06"})
	}
	w3s := [][]conOp{{w1}, {w3}, {w4a}, {w5b}, {w6}}
	r3s := [][]conOp{{r1}, {r3}, {r4}, {r6}}
	if !quick {
		w3s = wseq[:12]
		r3s = rseq[:12]
	}
	for i, a := range w3s {
		for _, b := range w3s[i:] {
			for _, r := range r3s {
				out = append(out, scenario{Name: name(a, b, r), Cfg: cfg, Setup: setup, Threads: [][]conOp{a, b, r}, Bound: bound3, Prop: "C06"})
			}
		}
	}
	for _, a := range w3s {
		for i, r := range r3s {
			for _, q := range r3s[i:] {
				out = append(out, scenario{Name: name(a, r, q), Cfg: cfg, Setup: setup, Threads: [][]conOp{a, r, q}, Bound: bound3, Prop: "C06"})
			}
		}
	}
	return out
}

// seqMemo: sequential results per permutation, per scenario (worker-local).
type seqResult struct {
	results []string
	final   string
}

// permutations of call ids respecting the real-time order
func linearizations(calls []callRec, f func(order []int) bool) bool {
	n := len(calls)
	used := make([]bool, n)
	order := make([]int, 0, n)
	var rec func() bool
	rec = func() bool {
		if len(order) == n {
			return f(order)
		}
		for i := 0; i < n; i++ {
			if used[i] {
				continue
			}
			// i may come next only if no unused j finished before i started
			ok := true
			for j := 0; j < n; j++ {
				if j != i && !used[j] && calls[j].ret < calls[i].call {
					ok = false
					break
				}
			}
			if !ok {
				continue
			}
			used[i] = true
			order = append(order, i)
			if rec() {
				return true
			}
			order = order[:len(order)-1]
			used[i] = false
		}
		return false
	}
	return rec()
}

func runScenario(raw json.RawMessage) (any, error) {
	var sc scenario
	if err := json.Unmarshal(raw, &sc); err != nil {
		return nil, err
	}
	out := &scenOut{}
	outc := map[string]struct{}{}
	rlog := explore.NewRaceLog()
	rlog.Next()
	n := len(sc.Threads)
	// flatten ops for the sequential reference
	type opRef struct{ t, i int }
	var flat []opRef
	for t, ops := range sc.Threads {
		for i := range ops {
			flat = append(flat, opRef{t, i})
		}
	}
	// sanity pass: every operation alone, sequentially - it must release the router's lock when it returns
	// (a leaked lock would otherwise only show up as a worker that never answers)
	if sc.Only == nil {
		r0, _, _ := buildHistory(sc.Cfg, sc.Setup)
		for _, ops := range sc.Threads {
			for _, op := range ops {
				base := heldLocks() // process-wide counter: compare with its value before the call
				c06NewCallers(r0)
				op.do(r0)
				if w := c06CallersWritten(); w != "" {
					out.Viols = append(out.Viols, explore.Violation{Property: sc.Prop, Clause: sc.Prop + ".fault", Class: "caller-memory-written", Config: sc.Cfg.String(), History: []string{sc.Name},
						Probe: op.String() + " (run alone, sequentially)", Observed: w, Expected: "the caller's slice is read, never appended into",
						Replay: explore.ItemReplay("c06/scenario", sc)})
					out.Execs = 1
					return out, nil
				}
				if n := heldLocks() - base; n != 0 {
					out.Viols = append(out.Viols, explore.Violation{Property: sc.Prop, Clause: sc.Prop + ".deadlock", Class: "lock-leaked", Config: sc.Cfg.String(), History: []string{sc.Name},
						Probe: op.String() + " (run alone, sequentially)", Observed: fmt.Sprintf("%d router lock(s) still held after the call returned", n), Expected: "every lock released",
						Replay: explore.ItemReplay("c06/scenario", sc)})
					out.Execs = 1
					return out, nil
				}
			}
		}
	}
	memo := map[string]seqResult{}
	seq := func(order []int) seqResult {
		key := fmt.Sprint(order)
		if r, ok := memo[key]; ok {
			return r
		}
		r, _, _ := buildHistory(sc.Cfg, sc.Setup)
		c06NewCallers(r)
		var res seqResult
		res.results = make([]string, len(flat))
		for _, k := range order {
			res.results[k] = sc.Threads[flat[k].t][flat[k].i].do(r)
		}
		res.final = RoutesString(RoutesOf(r))
		memo[key] = res
		return res
	}

	run := func(s *explore.Sched) explore.ExecResult {
		var raceViols []explore.Violation
		res0 := func() explore.ExecResult {
			r, _, perr := buildHistory(sc.Cfg, sc.Setup)
			if perr != "" {
				return explore.ExecResult{Viols: []explore.Violation{{Property: sc.Prop, Clause: sc.Prop + ".setup", Class: "setup-panic", Observed: perr, Expected: "setup succeeds"}}}
			}
			types.VerifDrainPool()
			c06NewCallers(r)
			calls := make([]callRec, len(flat))
			bodies := make([]func(), n)
			k0 := 0
			for t := range sc.Threads {
				t, base := t, k0
				k0 += len(sc.Threads[t])
				bodies[t] = func() {
					for i, op := range sc.Threads[t] {
						c := &calls[base+i]
						c.thread, c.idx = t, i
						c.call = s.Now()
						c.result = op.do(r)
						c.ret = s.Now()
						s.Yield()
					}
				}
			}
			races0 := explore.RaceErrors()
			mux.VerifSetHook(s.Hook)
			hv.Point = s.Yield
			s.Run(bodies)
			mux.VerifSetHook(nil)
			hv.Point = nil
			sched := explore.ScheduleString(s.Points())
			mk := func(clause, class, obs, exp string) explore.ExecResult {
				only := explore.Choices(s.Points())
				rs := sc
				rs.Only = only
				return explore.ExecResult{Viols: []explore.Violation{{Property: sc.Prop, Clause: clause, Class: class, Config: sc.Cfg.String() + " setup: " + strings.Join(opsStrings(sc.Setup), "; "),
					History: []string{sc.Name}, Probe: "schedule (thread running at each point) " + sched, Observed: obs, Expected: exp,
					Replay: explore.ItemReplay("c06/scenario", rs)}}}
			}
			if s.Diverged != "" {
				return mk(sc.Prop+".harness", "replay-diverged", s.Diverged, "deterministic replay")
			}
			if d := explore.RaceErrors() - races0; d > 0 {
				classes, summary := explore.RaceClasses(rlog.Next())
				var res explore.ExecResult
				for _, class := range classes {
					res.Viols = append(res.Viols, mk(sc.Prop+".race", "race:"+class, "data race: "+class, "no data race\n"+summary).Viols...)
				}
				if len(res.Viols) == 0 {
					return mk(sc.Prop+".race", "race:unclassified", fmt.Sprintf("%d race report(s), log not readable", d), "no data race")
				}
				raceViols = res.Viols // keep checking: which races get (re)reported depends on what the process reported before
			}
			if s.Deadlock {
				return mk(sc.Prop+".deadlock", "deadlock", "threads unfinished, none enabled", "no deadlock")
			}
			if s.Horizon {
				return mk(sc.Prop+".horizon", "horizon", "execution exceeded the point horizon", "termination")
			}
			for t := 0; t < n; t++ {
				if e := explore.TakePanic(t); e != nil {
					return mk(sc.Prop+".fault", "thread-panic:"+shortPanic(e), fmt.Sprintf("thread %d panicked: %v", t, e), "no runtime fault")
				}
			}
			if w := c06CallersWritten(); w != "" {
				return mk(sc.Prop+".fault", "caller-memory-written", w, "the caller's slice is read, never appended into")
			}
			var obs []string
			for _, c := range calls {
				obs = append(obs, c.result)
				if strings.HasPrefix(c.result, "PANIC") || strings.HasPrefix(c.result, "panic(") && !strings.HasPrefix(c.result, "panic(error)") || c.result == "NIL-HANDLER" {
					return mk(sc.Prop+".fault", "op-fault:"+shortPanic(c.result), fmt.Sprintf("%s -> %s", sc.Threads[c.thread][c.idx], c.result), "no runtime fault, no nil handler")
				}
			}
			final := RoutesString(RoutesOf(r))
			okLin := linearizations(calls, func(order []int) bool {
				sr := seq(order)
				for k := range calls {
					if sr.results[k] != calls[k].result {
						return false
					}
				}
				return sr.final == final
			})
			oc := strings.Join(obs, " | ")
			if !okLin {
				var detail []string
				for _, c := range calls {
					detail = append(detail, fmt.Sprintf("T%d %s [%d,%d] -> %s", c.thread, sc.Threads[c.thread][c.idx], c.call, c.ret, c.result))
				}
				return mk(sc.Prop+".linearizable", "non-linearizable", strings.Join(detail, " ; ")+" ; final "+final, "results equal to some sequential order of the calls consistent with real time")
			}
			return explore.ExecResult{Outcome: oc}
		}()
		res0.Viols = append(raceViols, res0.Viols...)
		return res0
	}

	onExec := func(s *explore.Sched, r explore.ExecResult) {
		out.Points += int64(len(s.Points()))
		if r.Outcome != "" {
			outc[r.Outcome] = struct{}{}
		}
		out.Viols = append(out.Viols, r.Viols...)
		if out.Sample == nil {
			out.Sample = map[string]any{"scenario": sc.Name, "schedule": explore.ScheduleString(s.Points()), "outcome": r.Outcome}
		}
	}
	if sc.Only != nil {
		s := explore.NewSched(n, sc.Only)
		r := run(s)
		onExec(s, r)
		out.Execs = 1
	} else {
		for b := 0; b <= sc.Bound; b++ {
			ex, capped := explore.Explore(n, b, sc.MaxExec, run, onExec)
			out.Execs += ex
			if len(out.Viols) > 0 {
				break
			}
			if capped {
				out.Capped = true
				break
			}
			out.BoundOK = b
		}
	}
	ks := keys(outc)
	sort.Strings(ks)
	if len(ks) > 50 {
		ks = ks[:50]
	}
	for i := range ks {
		ks[i] = sc.Name + " => " + ks[i]
	}
	out.Outcomes = ks
	return out, nil
}

func mergeScen(rc *explore.RunCtx, in scenario, o scenOut, minBound *int) {
	rc.Add("states", o.Execs) // executions
	rc.Add("executions", o.Execs)
	rc.Add("transitions", o.Points)
	rc.Add("scenarios", 1)
	for _, v := range o.Viols {
		rc.Report(v)
	}
	for _, s := range o.Outcomes {
		rc.Outcome(s)
	}
	if o.Sample != nil {
		rc.Sample(o.Sample)
	}
	if o.Capped {
		rc.Capped("scenario " + in.Name + ": execution cap reached")
	}
	if len(o.Viols) == 0 && o.BoundOK < *minBound {
		*minBound = o.BoundOK
	}
}

func init() {
	explore.RegisterJob("c06/scenario", runScenario)
	explore.Register(&explore.Check{ID: "C06", Run: func(rc *explore.RunCtx) {
		if !explore.RaceEnabled {
			rc.Fail("C06 needs the -race build (./verif C06)")
			return
		}
		scs := c06Scenarios(rc.Quick())
		rc.Assume = append(rc.Assume,
			"router created with WithLock(true); setup: /posts/author, /posts/{id}, /t, /x/a../x/f; 2- and 3-thread scenarios over writers {Handle that splits a node, Remove that re-prunes it, Handle adding a method to an untouched pattern, toggling /t, Clean, Prefix.Clean, Remove next to untouched siblings} and readers {GET/OPTIONS/POST on untouched, parameterised and toggled routes, Routes(), URL strict and non-strict}",
			"every interleaving at synchronisation points (lock announce/acquire/release, pool get/put, handler entry/exit, operation boundaries) up to the preemption bound, explored by stateless DFS with iterative bounding; writer preference of sync.RWMutex is modelled, so a recursive read lock shows up as a deadlock",
			"per execution: race-detector report delta (the scheduler's hand-off is invisible to the detector), no panic / nil handler, no deadlock, results linearizable against the same calls run sequentially on a fresh router, final Routes() equal to that linearization's",
			"the Allow header a user handler reads from Node() at request time is user code outside the lock and is not part of the compared response; Router.Use is not in the alphabet (the property does not list it)")
		minBound := 99
		explore.ParMap(rc, "c06/scenario", scs, func(i int, in scenario, o scenOut) { mergeScen(rc, in, o, &minBound) })
		rc.Set("preemption_bound_completed", minBound)
		rc.Set("race_detector", "on")
	}})
}
