package props

import (
	"encoding/json"
	"fmt"
	"net/http"
	"sort"
	"strconv"
	"strings"

	"github.com/issue9/mux/v9"

	"verifharness/explore"
	"verifharness/hv"
	"verifharness/ref"
)

// ---- C08: automatic HEAD and OPTIONS ----

var c08Steps = []hv.Step{
	{Op: "WH", N: 201}, {Op: "WH", N: 404},
	{Op: "W", N: 0}, {Op: "W", N: 1}, {Op: "W", N: 3},
	{Op: "Set", K: "X-A", V: "1"}, {Op: "Set", K: "Content-Type", V: "text/x"}, {Op: "Del", K: "X-A"},
	{Op: "Set", K: "X-B", V: "2"},
	{Op: "WH", N: 103},                        // an informational response: status and headers of the final one are still open
	{Op: "Mut", K: "X-B", V: "9"},             // the value slice of a header edited in place
	{Op: "KSet", K: "X-K", V: "3"},            // a header set through the map the handler obtained before anything was written
	{Op: "Copy", N: 5},                        // body bytes streamed with io.Copy
	{Op: "WH", N: 200},                        // an explicit 200 commits status and headers like any other explicit status
	{Op: "Flush"},                             // flushes through whatever the writer offers (http.Flusher or a ResponseController)
	{Op: "Wchk", N: 2},                        // a write whose result is checked: anything but (2, nil) ends the handler
	{Op: "IfH", K: "X-A", V: "1", N: 2},       // two more bytes if the handler reads X-A: 1 back from its own response headers
	{Op: "Set", K: "Content-Length", V: "10"}, // a length the handler announces itself and then does not keep to
}

// progWrites is what a program writes, by the net/http contract: whether it sends the header itself, the body bytes
// and the number of writes. X-A is only ever touched through w.Header().Set/Del, so what IfH reads back is known.
func progWrites(prog []hv.Step) (explicit bool, total, writes int) {
	xa := ""
	for _, s := range prog {
		switch {
		case s.Op == "WH" && s.N >= 200:
			explicit = true
		case s.Op == "Set" && s.K == "X-A":
			xa = s.V
		case s.Op == "Del" && s.K == "X-A":
			xa = ""
		case s.Op == "W" || s.Op == "Copy" || s.Op == "Wchk" || s.Op == "IfH" && xa == s.V:
			total += s.N
			writes++
		}
	}
	return
}

// headTrialRecovered: the GET handler program panics somewhere and a recovery option answers; HEAD must still
// mirror GET (status, headers as sent) and deliver no body.
func headTrialRecovered(prog []hv.Step) (class, obs, exp string) {
	r := NewRouter(RouterCfg{}, mux.WithStatusRecovery(500))
	r.Handle("/r", hv.Route("hp", prog...), nil, "GET")
	r.Handle("/prime", hv.Route("hprime", hv.Step{Op: "Set", K: "X-Prime", V: "1"}, hv.Step{Op: "W", N: 3}, hv.Step{Op: "WH", N: 500}), nil, "GET")
	hv.Serve(r, hv.Req{Method: "HEAD", Path: "/prime"}) // an unrelated earlier HEAD request: nothing of it may be left behind
	g := hv.Serve(r, hv.Req{Method: "GET", Path: "/r"})
	h := hv.Serve(r, hv.Req{Method: "HEAD", Path: "/r"})
	if g.Paniced || h.Paniced {
		return "panic-escaped-recovery", fmt.Sprintf("GET panic=%v HEAD panic=%v", g.Panic, h.Panic), "contained by WithStatusRecovery"
	}
	if len(h.Body) != 0 {
		return "head-body-leaks:recovery", fmt.Sprintf("HEAD delivered %d body bytes (%q)", len(h.Body), h.Body), "0 body bytes"
	}
	if h.Status != g.Status {
		return "head-status-differs:recovery", fmt.Sprintf("HEAD %d", h.Status), fmt.Sprintf("GET %d", g.Status)
	}
	if gh, hh := headerString(g.Header, "Content-Length"), headerString(h.Header, "Content-Length"); gh != hh {
		return "head-headers-differ:recovery", "HEAD headers as sent: " + hh, "GET headers as sent: " + gh
	}
	return "", "", ""
}

type progItem struct {
	First int       `json:"first"` // index of the first step, -1 = the empty program
	Len   int       `json:"len"`
	Only  []hv.Step `json:"only,omitempty"` // replay: just this program
	One   bool      `json:"one,omitempty"`
}

func progString(p []hv.Step) string {
	s := make([]string, len(p))
	for i, x := range p {
		s[i] = x.String()
	}
	return "[" + strings.Join(s, " ") + "]"
}

func headerString(h http.Header, skip string) string {
	ks := make([]string, 0, len(h))
	for k := range h {
		if k != skip {
			ks = append(ks, k)
		}
	}
	sort.Strings(ks)
	var b strings.Builder
	for _, k := range ks {
		fmt.Fprintf(&b, "%s=%q ", k, h[k])
	}
	return b.String()
}

// headTrial runs one handler program under GET and HEAD.
func headTrial(prog []hv.Step) (class, obs, exp string, outcome string) {
	if class, obs, exp, outcome = headTrialOn(prog, ""); class != "" {
		return
	}
	for _, mode := range []string{"via-group", "mounted"} {
		if c2, o2, e2, _ := headTrialOn(prog, mode); c2 != "" {
			return c2 + ":" + mode, o2, e2, outcome
		}
	}
	for _, s := range prog {
		if s.Op == "Flush" {
			if c2, o2, e2 := headTrialFlusher(prog); c2 != "" {
				return c2 + ":flusher", o2, e2, outcome
			}
			break
		}
	}
	return
}

// headTrialFlusher: the program under HEAD on a server writer that offers http.Flusher. What a flush does to a GET
// response is not among the write patterns the property compares, so GET is not consulted here; what the property
// says about HEAD alone still holds: no fault, no body, and - the handler not having sent the header itself -
// Content-Length equal to the bytes it wrote.
func headTrialFlusher(prog []hv.Step) (class, obs, exp string) {
	r := NewRouter(RouterCfg{})
	r.Handle("/r", hv.Route("hp", prog...), nil, "GET")
	h := hv.Serve(r, hv.Req{Method: "HEAD", Path: "/r", Flusher: true})
	if h.Paniced {
		return "panic", fmt.Sprintf("HEAD panic=%v", h.Panic), "no panic"
	}
	if len(h.Body) != 0 {
		return "head-body-leaks", fmt.Sprintf("HEAD delivered %d body bytes", len(h.Body)), "0 body bytes"
	}
	explicit, total, writes := progWrites(prog)
	if !explicit && writes > 0 {
		if cl := h.Header.Get("Content-Length"); cl != strconv.Itoa(total) {
			return "content-length-wrong", "HEAD Content-Length=" + cl + " (as sent)", "Content-Length=" + strconv.Itoa(total) + " (bytes the handler wrote)"
		}
	}
	return "", "", ""
}

// headTrialOn runs the program under GET and HEAD, on the router itself or through a Group that dispatches to it.
// An unrelated HEAD request whose handler writes a body is served first: nothing of it may be left behind.
func headTrialOn(prog []hv.Step, mode string) (class, obs, exp string, outcome string) {
	var r *Router
	var srv http.Handler
	switch mode {
	case "via-group":
		grp := newGroup()
		r = grp.New("r", nil)
		srv = grp
	case "mounted":
		// the GET handler of the outer route is itself a router (a router is an http.Handler): the inner router wraps
		// the writer of a HEAD request a second time
		outer := NewRouter(RouterCfg{Name: "outer"})
		outer.Handle("/r", hv.Route("mount", hv.Step{Op: "Mount"}), nil, "GET")
		r = NewRouter(RouterCfg{})
		hv.Mounted = r
		defer func() { hv.Mounted = nil }()
		srv = outer
	default:
		r = NewRouter(RouterCfg{})
		srv = r
	}
	r.Handle("/r", hv.Route("hp", prog...), nil, "GET")
	r.Handle("/prime", hv.Route("hprime", hv.Step{Op: "Set", K: "X-Prime", V: "1"}, hv.Step{Op: "W", N: 3}, hv.Step{Op: "WH", N: 500}), nil, "GET")
	hv.Serve(srv, hv.Req{Method: "HEAD", Path: "/prime"})
	g := hv.Serve(srv, hv.Req{Method: "GET", Path: "/r"})
	h := hv.Serve(srv, hv.Req{Method: "HEAD", Path: "/r"})
	outcome = fmt.Sprintf("%d/%d/%s", g.Status, len(g.Body), h.Header.Get("Content-Length"))
	if g.Paniced || h.Paniced {
		return "panic", fmt.Sprintf("GET panic=%v HEAD panic=%v", g.Panic, h.Panic), "no panic", outcome
	}
	if h.HID != g.HID || h.CoreID != "hp" {
		return "head-other-handler", "HEAD ran " + h.HID, "GET's handler " + g.HID, outcome
	}
	if h.Status != g.Status {
		return "head-status-differs", fmt.Sprintf("HEAD %d", h.Status), fmt.Sprintf("GET %d", g.Status), outcome
	}
	if gi, hi := strings.Join(g.Info, " / "), strings.Join(h.Info, " / "); gi != hi {
		return "head-informational-differs", "HEAD sent informational responses: " + hi, "as GET: " + gi, outcome
	}
	if len(h.Body) != 0 {
		return "head-body-leaks", fmt.Sprintf("HEAD delivered %d body bytes", len(h.Body)), "0 body bytes", outcome
	}
	gh, hh := headerString(g.Header, "Content-Length"), headerString(h.Header, "Content-Length")
	if gh != hh {
		class := "head-headers-differ"
		// was a header changed after the first body write / explicit WriteHeader?
		sent := false
		for _, s := range prog {
			if (s.Op == "Set" || s.Op == "Del" || s.Op == "KSet") && sent {
				class = "head-headers-differ:set-after-write"
			}
			if s.Op == "W" || s.Op == "Copy" || s.Op == "Wchk" || s.Op == "WH" && s.N >= 200 {
				sent = true
			}
		}
		return class, "HEAD headers as sent: " + hh, "GET headers as sent: " + gh, outcome
	}
	explicit, total, writes := progWrites(prog)
	if !explicit && writes > 0 {
		if cl := h.Header.Get("Content-Length"); cl != strconv.Itoa(total) {
			return "content-length-wrong", "HEAD Content-Length=" + cl, "Content-Length=" + strconv.Itoa(total) + " (bytes the handler wrote)", outcome
		}
	}
	return "", "", "", outcome
}

func progJob(raw json.RawMessage) (any, error) {
	var it progItem
	json.Unmarshal(raw, &it)
	out := &simpleOut{}
	outc := map[string]struct{}{}
	try := func(p []hv.Step) {
		out.Evals++
		var class, obs, exp, oc string
		hasPanic := false
		for _, st := range p {
			if st.Op == "Panic" {
				hasPanic = true
			}
		}
		if hasPanic { // replay of a recovered-panic case
			class, obs, exp = headTrialRecovered(p)
		} else {
			class, obs, exp, oc = headTrial(p)
		}
		outc[oc] = struct{}{}
		if !hasPanic && class == "" && len(p) <= 3 {
			// the same program with a panic inserted at every position, under a recovery option
			for i := 0; i <= len(p) && class == ""; i++ {
				pp := append(append(append([]hv.Step{}, p[:i]...), hv.Step{Op: "Panic"}), p[i:]...)
				out.Evals++
				if class, obs, exp = headTrialRecovered(pp); class != "" {
					p = pp
				}
			}
		}
		if class != "" {
			out.Viols = append(out.Viols, explore.Violation{Property: "C08", Clause: "C08.head", Class: class, Probe: "GET handler program " + progString(p) + ", GET vs HEAD /r", Observed: obs, Expected: exp,
				Replay: explore.ItemReplay("c08/progs", progItem{Only: p, One: true})})
			out.Viols = smallestPerSig(out.Viols)
		}
	}
	if it.One {
		try(it.Only)
	} else if it.First < 0 {
		try(nil)
	} else {
		var rec func(p []hv.Step)
		rec = func(p []hv.Step) {
			try(p)
			if len(p) == it.Len {
				return
			}
			for _, s := range c08Steps {
				rec(append(append([]hv.Step{}, p...), s))
			}
		}
		rec([]hv.Step{c08Steps[it.First]})
	}
	out.Sample = map[string]any{"first_step": it.First, "programs": out.Evals}
	out.Outcomes = keys(outc)
	return out, nil
}

// ---- histories on one pattern ----

func c08Alphabet() []Op {
	return []Op{
		{K: "handle", P: "/r", Ms: []string{"GET"}},
		{K: "handle", P: "/r", Ms: []string{"GET"}, MW: []string{"M1"}},
		{K: "use"},
		{K: "handle", P: "/r", Ms: []string{"POST"}},
		{K: "handle", P: "/r", Ms: []string{"PUT"}},
		{K: "handle", P: "/r", Ms: []string{"GET", "POST"}},
		{K: "handle", P: "/r"},
		{K: "handle", P: "/rs", Ms: []string{"GET"}},
		{K: "handle", P: "/", Ms: []string{"GET"}},
		{K: "handle", P: "/r", Ms: []string{"TRACE"}},
		{K: "remove", P: "/r", Ms: []string{"GET"}},
		{K: "remove", P: "/r", Ms: []string{"POST"}},
		{K: "remove", P: "/r", Ms: []string{"HEAD"}},
		{K: "remove", P: "/r", Ms: []string{"OPTIONS"}},
		{K: "remove", P: "/r", Ms: []string{"GET", "OPTIONS"}},
		{K: "remove", P: "/r", Ms: []string{"OPTIONS", "HEAD", ""}},
		{K: "remove", P: "/r", Ms: []string{"TRACE"}},
		{K: "remove", P: "/r"},
		{K: "remove", P: "/rs"},
		{K: "rclean", P: "/r"},
		{K: "clean"},
	}
}

func c08Check(cfg RouterCfg, hist []Op, r *Router, t *ref.Table, c *explore.Child, outc map[string]struct{}) {
	hs := opsStrings(hist)
	rep := func(clause, class, probe, obs, exp string, q hv.Req) {
		c.Viols = append(c.Viols, explore.Violation{Property: "C08", Clause: clause, Class: class, Config: cfg.String(), History: hs, Probe: probe, Observed: obs, Expected: exp})
	}
	for _, p := range []string{"/r", "/rs", "/"} {
		rt := t.Routes[p]
		for _, m := range []string{"GET", "HEAD", "OPTIONS", "POST", "BOGUS"} {
			q := hv.Req{Method: m, Path: p}
			o := hv.Serve(r, q)
			c.Probes++
			outc[fmt.Sprintf("%s/%s/%d/%s", p, m, o.Status, o.Kind)] = struct{}{}
			if o.Paniced {
				rep("C08.no-panic", "panic:"+shortPanic(o.Panic), q.String(), fmt.Sprintf("panic: %v", o.Panic), "no panic", q)
				continue
			}
			switch {
			case rt == nil:
				if o.Kind != "404" {
					rep("C08.options-automatic", "answered-after-last-method-removed", q.String(), o.Summary(), "404: the pattern has no method left", q)
				}
			case m == "HEAD":
				if rt.Methods["GET"] != "" {
					if g := hv.Serve(r, hv.Req{Method: "GET", Path: p}); !g.Paniced && g.HID != o.HID {
						rep("C08.head-follows-get", "head-runs-other-middleware-chain", q.String(), "HEAD ran "+o.HID, "exactly what GET runs: "+g.HID, q)
					}
					if o.CoreID != rt.Methods["GET"] || !o.WIsHead {
						rep("C08.head-follows-get", "head-not-served-while-get-live", q.String(), o.Summary(), "GET's handler "+rt.Methods["GET"]+" behind the body-discarding writer", q)
					}
				} else if o.Kind != "405" {
					rep("C08.head-follows-get", "head-outlives-get", q.String(), o.Summary(), "405: GET is not registered", q)
				}
			case m == "OPTIONS":
				if o.Kind != "OPT" {
					rep("C08.options-automatic", "options-removed-early", q.String(), o.Summary(), "automatic OPTIONS answer while another method remains", q)
				}
			}
		}
	}
	if got, want := RoutesString(RoutesOf(r)), RoutesString(ModelRoutes(t)); got != want {
		rep("C08.routes", "routes-differ", "Routes()", got, want, hv.Req{})
	}
	// forbidden registrations change nothing
	paths := []string{"/r", "/rs", "/"}
	for _, x := range []call{{"/r", []string{"HEAD"}}, {"/r", []string{"OPTIONS"}}, {"/r", []string{"PATCH", "HEAD"}}, {"/r", []string{"BOGUS"}}, {"/r", []string{"get"}}, {"/r", []string{"DELETE", "OPTIONS"}}, {"/rs", []string{"HEAD"}}, {"/new", []string{"OPTIONS"}}, {"/r", []string{"TRACE"}}} {
		verdict, why := t.Judge(x.P, x.Ms)
		if verdict != ref.Reject {
			continue
		}
		r2, _, _ := buildHistory(cfg, hist)
		before := c17Vector(r2, paths)
		pv, paniced := Guard(func() { r2.Handle(x.P, hv.Route("h:rejected"), nil, x.Ms...) })
		c.Probes += int64(2 * len(before))
		mk := func(clause, class, obs, exp string) {
			c.Viols = append(c.Viols, explore.Violation{Property: "C08", Clause: clause, Class: class, Config: cfg.String(), History: hs, Probe: x.String(), Observed: obs, Expected: exp})
		}
		if !paniced {
			mk("C08.reserved", "reserved-method-registered:"+why, "Handle returned normally", "rejected ("+why+")")
			continue
		}
		if PanicClass(pv) != "error" {
			mk("C08.reserved", "panic-not-error", fmt.Sprintf("panic(%T): %v", pv, pv), "panic with an error value")
		}
		after := c17Vector(r2, paths)
		for i := range before {
			if before[i] != after[i] {
				mk("C08.reserved-unchanged", "rejected-call-changed-state:"+why, "before: "+before[i]+" ; after: "+after[i], "identical")
				break
			}
		}
	}
}

var c08Spec = &histSpec{Prop: "C08", Alphabet: c08Alphabet, Check: c08Check}

func init() {
	explore.RegisterJob("c08/progs", progJob)
	c08Spec.register("c08/expand")
	explore.Register(&explore.Check{ID: "C08", Run: func(rc *explore.RunCtx) {
		plen, depth := 4, 4
		if !rc.Quick() {
			plen, depth = 5, 6
		}
		rc.Set("program_max_len", plen)
		rc.Set("history_depth", depth)
		rc.Assume = append(rc.Assume,
			"(a') every program of length <= 3 with a panic inserted at every position, on a router with WithStatusRecovery: HEAD still mirrors GET and delivers no body",
			"(a) every handler program of length <= bound over {WriteHeader(201|404), Write(0|1|3), Set(X-A|Content-Type|X-B), Del(X-A)} registered as the GET handler and run under GET and HEAD on a ResponseWriter with wire semantics (headers frozen when the status line is sent)",
			"(b) every history over the C08 alphabet on one pattern plus a sibling that splits it and the root pattern, with and without WithTrace; after every step HEAD iff GET, OPTIONS iff live, reserved/unknown registrations rejected without effect")
		items := []progItem{{First: -1}}
		for i := range c08Steps {
			items = append(items, progItem{First: i, Len: plen})
		}
		explore.ParMap(rc, "c08/progs", items, func(i int, in progItem, o simpleOut) { mergeSimple(rc, o, "handler_programs") })
		for _, cfg := range []RouterCfg{{}, {Trace: true}} {
			explore.BFS(rc, "c08/expand", histCfg{Router: cfg}, depth, true, "C08 "+cfg.String())
		}
	}})
}
