package props

import (
	"encoding/json"
	"fmt"
	"sort"
	"strings"

	"github.com/issue9/mux/v9"
	"github.com/issue9/mux/v9/types"

	"verifharness/explore"
	"verifharness/hv"
	"verifharness/ref"
)

// ---- C14: Hosts matcher ----

type hostOp struct {
	K  string   `json:"k"` // add | del | icpt | multi
	D  string   `json:"d,omitempty"`
	Ds []string `json:"ds,omitempty"`
}

func (o hostOp) String() string {
	switch o.K {
	case "add":
		return fmt.Sprintf("Add(%q)", o.D)
	case "del":
		return fmt.Sprintf("Delete(%q)", o.D)
	case "icpt":
		return "RegisterInterceptor(digit)"
	case "multi":
		return "Add(" + strings.Join(o.Ds, ",") + ")"
	}
	return o.K
}

var c14Pool = []string{"a.co", "a.com.cn", "a.com", "b.com", "c.com", "d.com", "e.com", "f.com", "api.example.com", "{sub}.a.com", `{sub:\d+}.a.com`, "{sub:digit}.b.com", "{-s}.c.com", "::1"}

// c14NestPool (family 1): wildcard domains that are textual prefixes of one another below one parameter, so that
// deletions re-join nodes along a chain, and a domain with non-ASCII letters.
var c14NestPool = []string{"{sub}.a.com", "{sub}.a.com.cn", "{sub}.a.org", "{sub}.a.co", "\u00e9cole.com", "{sub}.\u00e9cole.com",
	"{Sub:\\D+}.B.net",                       // a name and a rule with capitals: only the text outside the braces is case-insensitive
	"{t}.com",                                // competes with {sub}.a.com for x.a.com: whichever wins, deleting a third domain must not change it
	"*.a.com",                                // a literal domain that begins with '*': only the Host "*" itself is the server-wide target
	"{sub:digit}.c.com", "{sub:digit}.c.org"} // two domains sharing a rule that RegisterInterceptor can turn from a regexp into an interceptor

type c14Cfg struct {
	Family int `json:"family"`
}

func c14AlphabetOf(family int) []hostOp {
	if family != 1 {
		return c14Alphabet()
	}
	var ops []hostOp
	for _, d := range c14NestPool {
		ops = append(ops, hostOp{K: "add", D: d})
	}
	for _, d := range c14NestPool {
		ops = append(ops, hostOp{K: "del", D: d})
	}
	return append(ops, hostOp{K: "add", D: "\u00c9COLE.com"}, hostOp{K: "del", D: "\u00c9cole.COM"}, hostOp{K: "icpt"})
}

func c14PoolOf(family int) []string {
	if family == 1 {
		return c14NestPool
	}
	return c14Pool
}

func c14Alphabet() []hostOp {
	var ops []hostOp
	for _, d := range c14Pool {
		ops = append(ops, hostOp{K: "add", D: d})
	}
	ops = append(ops, hostOp{K: "add", D: "A.COM"}, hostOp{K: "add", D: "API.Example.com"}, hostOp{K: "add", D: "{sub}.A.Com"},
		hostOp{K: "multi", Ds: []string{"a.com", "b.com", "c.com", "d.com", "e.com", "f.com"}})
	for _, d := range c14Pool {
		ops = append(ops, hostOp{K: "del", D: d})
	}
	ops = append(ops, hostOp{K: "del", D: "A.COM"}, hostOp{K: "del", D: "API.example.com"}, hostOp{K: "del", D: "{sub}.A.com"}, hostOp{K: "del", D: "zz.com"}, hostOp{K: "del", D: "com"}, hostOp{K: "del", D: "a."}, hostOp{K: "del", D: "{sub}."},
		hostOp{K: "icpt"})
	return ops
}

// hostModel: live domains (lower-cased), each parsed with the interceptors registered when it was added.
type hostModel struct {
	icpt bool
	live map[string]*ref.Pattern
}

func (m *hostModel) ic() ref.Interceptors {
	if m.icpt {
		return ref.Interceptors{"digit": ref.MatchDigit}
	}
	return ref.Interceptors{}
}

// lowerOutsideBraces: domains are case-insensitive, parameter names and rules ({Sub:\\D+}) are not.
func lowerOutsideBraces(d string) string {
	var b strings.Builder
	for d != "" {
		i := strings.IndexByte(d, '{')
		if i < 0 {
			b.WriteString(strings.ToLower(d))
			break
		}
		b.WriteString(strings.ToLower(d[:i]))
		j := strings.IndexByte(d[i:], '}')
		if j < 0 {
			b.WriteString(strings.ToLower(d[i:])) // a brace that is never closed opens no parameter: literal text
			break
		}
		b.WriteString(d[i : i+j+1])
		d = d[i+j+1:]
	}
	return b.String()
}

func (m *hostModel) enabled(o hostOp) bool {
	switch o.K {
	case "add":
		d := lowerOutsideBraces(o.D)
		if m.live[d] != nil {
			return false
		}
		p, err := ref.Parse(d, m.ic())
		if err != nil {
			return false
		}
		for _, q := range m.live {
			if ref.SameUpToNames(p, q) {
				return false
			}
		}
	case "multi":
		for _, d := range o.Ds {
			if m.live[d] != nil {
				return false
			}
		}
	case "icpt":
		return !m.icpt
	}
	return true
}

func (m *hostModel) apply(o hostOp) {
	switch o.K {
	case "add":
		d := lowerOutsideBraces(o.D)
		m.live[d] = ref.MustParse(d, m.ic())
	case "multi":
		for _, d := range o.Ds {
			m.live[d] = ref.MustParse(d, m.ic())
		}
	case "del":
		delete(m.live, lowerOutsideBraces(o.D))
	case "icpt":
		m.icpt = true
	}
}

func (m *hostModel) String() string {
	var ks []string
	for k, p := range m.live {
		kinds := ""
		for _, t := range p.Tokens {
			if t.Kind != ref.Lit {
				kinds += t.Kind.String()[:1]
			}
		}
		ks = append(ks, k+"/"+kinds)
	}
	sort.Strings(ks)
	return fmt.Sprintf("icpt=%v %s", m.icpt, strings.Join(ks, " "))
}

func (m *hostModel) patterns() []*ref.Pattern {
	var ks []string
	for k := range m.live {
		ks = append(ks, k)
	}
	sort.Strings(ks)
	var ps []*ref.Pattern
	for _, k := range ks {
		ps = append(ps, m.live[k])
	}
	return ps
}

// normaliseHost is the statement's rule written independently.
func normaliseHost(h string) string {
	if i := strings.LastIndexByte(h, ':'); i >= 0 {
		digits := true
		for _, c := range h[i+1:] {
			if c < '0' || c > '9' {
				digits = false
			}
		}
		if digits {
			h = h[:i]
		}
	}
	if len(h) >= 2 && h[0] == '[' && h[len(h)-1] == ']' {
		h = h[1 : len(h)-1]
	}
	return strings.ToLower(h)
}

func applyHost(h *mux.Hosts, o hostOp) (any, bool) {
	return Guard(func() {
		switch o.K {
		case "add":
			h.Add(o.D)
		case "multi":
			h.Add(o.Ds...)
		case "del":
			h.Delete(o.D)
		case "icpt":
			h.RegisterInterceptor(ref.MatchDigit, "digit")
		}
	})
}

func buildHosts(ops []hostOp) (*mux.Hosts, *hostModel, string) {
	h := mux.NewHosts(false)
	m := &hostModel{live: map[string]*ref.Pattern{}}
	for _, o := range ops {
		if v, bad := applyHost(h, o); bad {
			return h, m, fmt.Sprintf("%s panicked: %v", o, v)
		}
		m.apply(o)
	}
	return h, m, ""
}

func c14Hosts() []string { return c14HostsOf(0) }

func c14HostsOf(family int) []string {
	seen := map[string]bool{}
	var out []string
	add := func(s string) {
		if !seen[s] {
			seen[s] = true
			out = append(out, s)
		}
	}
	for _, d := range c14PoolOf(family) {
		w := d
		w = strings.ReplaceAll(w, `{sub:\d+}`, "7")
		w = strings.ReplaceAll(w, "{sub:digit}", "8")
		w = strings.ReplaceAll(w, "{sub}", "x1")
		w = strings.ReplaceAll(w, "{t}", "x1.a")
		w = strings.ReplaceAll(w, "{Sub:\\D+}", "xy")
		w = strings.ReplaceAll(w, "{-s}", "yy")
		for _, f := range []string{w, strings.ToUpper(w), w + ":80", w + ":", w + ":8x", "[" + w + "]", "[" + w + "]:80", "[" + w + "]:",
			"[" + w, w + "]", w + "]:80", "[" + w + ":80", // a bracket without its partner is part of the name
			strings.ToUpper(w[:1]) + w[1:], strings.ReplaceAll(w, "\u00e9", "\u00c9")} { // capitals in part of the name only: the first letter, the non-ASCII letter
			add(f)
		}
		for _, e := range explore.Edit1(w, []byte{'a', '.', ':', 'x'}) {
			add(e)
		}
	}
	for _, s := range []string{"", "*", "zz.com", "digit.b.com", "x.b.com", ".a.com", "7.a.com:80", "x1.a.com.", "com", ":80", ":", "12.b.net", "xy.b.net", "XY.B.NET",
		"\u212a.a.com:80", "\u212a\u212a\u212a.a.com:8080", "[\u212a.a.com]:80",
		"x1.a.com.y.a.com.cn", "x1.a.com.a.com.cn:80", "8.c.com", "digit.c.com", "8.c.org", "digit.c.org"} { // KELVIN SIGN: 3 bytes, lower-cases to the 1-byte k
		add(s)
	}
	return out
}

type hostObs struct {
	ok     bool
	ps     string
	panicv any
	bad    bool
}

func probeHost(h *mux.Hosts, host string) hostObs { return probeHostURL(h, host, "") }

// probeHostURL: urlHost is the authority of the request target (URL.Host); the matcher goes by the Host header.
func probeHostURL(h *mux.Hosts, host, urlHost string) hostObs {
	return probeHostReq(h, hv.Req{Method: "GET", Path: "/", Host: host, URLHost: urlHost})
}

func probeHostReq(h *mux.Hosts, q hv.Req) hostObs {
	var o hostObs
	ctx := types.NewContext()
	o.panicv, o.bad = Guard(func() {
		o.ok = h.Match(hv.NewRequest(q, &hv.Obs{}), ctx)
	})
	ps := map[string]string{}
	ctx.Range(func(k, v string) { ps[k] = v })
	o.ps = hv.ParamsString(ps)
	ctx.Destroy()
	return o
}

func (o hostObs) String() string {
	if o.bad {
		return fmt.Sprintf("panic: %v", o.panicv)
	}
	return fmt.Sprintf("match=%v params=%s", o.ok, o.ps)
}

func c14Expand(raw json.RawMessage) (any, error) {
	var in explore.ExpandIn
	if err := json.Unmarshal(raw, &in); err != nil {
		return nil, err
	}
	var hcfg c14Cfg
	json.Unmarshal(in.Cfg, &hcfg)
	alpha := c14AlphabetOf(hcfg.Family)
	hist := make([]hostOp, len(in.History))
	for i, k := range in.History {
		hist[i] = alpha[k]
	}
	hosts := c14HostsOf(hcfg.Family)
	ph, pm, perr := buildHosts(hist)
	if perr != "" {
		return nil, fmt.Errorf("parent not replayable: %s", perr)
	}
	expect := func(m *hostModel, host string) string {
		outs := ref.Resolve(m.patterns(), normaliseHost(host))
		nh := normaliseHost(host)
		if len(outs) == 0 || nh == "" || nh == "*" {
			return "match=false params={}"
		}
		var alts []string
		for _, o := range outs {
			alts = append(alts, "match=true params="+hv.ParamsString(o.Params))
		}
		sort.Strings(alts)
		return strings.Join(alts, " | ")
	}
	before := make([]string, len(hosts))
	beforeExp := make([]string, len(hosts))
	for i, hs := range hosts {
		before[i] = probeHost(ph, hs).String()
		beforeExp[i] = expect(pm, hs)
	}
	var kids []explore.Child
	for k, op := range alpha {
		if !pm.enabled(op) || !in.Want(k) {
			continue
		}
		full := append(append([]hostOp{}, hist...), op)
		var hs []string
		for _, o := range full {
			hs = append(hs, o.String())
		}
		h, m, _ := buildHosts(hist)
		c := explore.Child{Op: k}
		if v, bad := applyHost(h, op); bad {
			c.Viols = append(c.Viols, explore.Violation{Property: "C14", Clause: "C14.no-panic", Class: "op-panic", History: hs, Observed: fmt.Sprintf("%s panicked: %v", op, v), Expected: "no panic"})
			c.Key, c.NoExpand = "panic:"+explore.Key(h), true
			kids = append(kids, c)
			continue
		}
		m.apply(op)
		outc := map[string]struct{}{}
		framed := false
		for i, host := range hosts {
			o := probeHost(h, host)
			c.Probes++
			want := expect(m, host)
			got := o.String()
			outc[got] = struct{}{}
			okAlt := false
			for _, a := range strings.Split(want, " | ") {
				if a == got {
					okAlt = true
				}
			}
			if !okAlt {
				class := "accepts-unregistered"
				switch {
				case o.bad:
					class = "panic"
				case !o.ok && strings.HasPrefix(want, "match=true"):
					class = "rejects-registered"
					if op.K == "del" {
						class = "stale-index-after-delete"
					}
				case o.ok && strings.HasPrefix(want, "match=true"):
					class = "wrong-params"
				case !o.ok:
					class = "params-left-on-reject"
				case op.K == "del" && strings.ToLower(op.D) != op.D:
					class = "delete-case-sensitive"
				}
				c.Viols = append(c.Viols, explore.Violation{Property: "C14", Clause: "C14.match", Class: class, History: hs, Probe: fmt.Sprintf("Match(Host=%q) [normalised %q]", host, normaliseHost(host)), Observed: got, Expected: want + "  (live: " + m.String() + ")"})
			}
			// the matcher goes by the Host header: the authority of the request target (set by an absolute-form
			// target or a rewriting proxy) naming another domain changes nothing
			decoy := "a.com"
			if normaliseHost(host) == "a.com" {
				decoy = "zz.com"
			}
			c.Probes++
			if od := probeHostURL(h, host, decoy).String(); od != got {
				c.Viols = append(c.Viols, explore.Violation{Property: "C14", Clause: "C14.match", Class: "goes-by-url-authority", History: hs, Probe: fmt.Sprintf("Match(Host=%q, URL.Host=%q)", host, decoy), Observed: od, Expected: got + "  (the answer for the same Host header with an empty URL.Host; live: " + m.String() + ")"})
			}
			// ... and by nothing else: not by the request method (known, reserved, extension, empty)
			alt := []string{"TRACE", "PROPFIND", "", "POST", "OPTIONS"}[i%5]
			c.Probes++
			if om := probeHostReq(h, hv.Req{Method: alt, Path: "/", Host: host}).String(); om != got {
				c.Viols = append(c.Viols, explore.Violation{Property: "C14", Clause: "C14.match", Class: "goes-by-request-method", History: hs, Probe: fmt.Sprintf("Match(method=%q, Host=%q)", alt, host), Observed: om, Expected: got + "  (the answer for the same Host in a GET request; live: " + m.String() + ")"})
			}
			if !framed && op.K == "del" && beforeExp[i] == want && before[i] != got {
				framed = true
				c.Viols = append(c.Viols, explore.Violation{Property: "C14", Clause: "C14.delete-frame", Class: "delete-changed-other-domain", History: hs, Probe: fmt.Sprintf("Match(Host=%q)", host), Observed: "before: " + before[i] + " ; after: " + got, Expected: "unchanged by " + op.String()})
			}
		}
		c.Viols = smallestPerSig(c.Viols)
		c.Key = explore.Key(h) + "|" + m.String()
		c.Outcomes = keys(outc)
		if len(hist) == 1 && k < 2 {
			c.Sample = map[string]any{"history": hs, "hosts_probed": len(hosts), "live": m.String()}
		}
		kids = append(kids, c)
	}
	return kids, nil
}

func init() {
	explore.RegisterJob("c14/expand", c14Expand)
	explore.Register(&explore.Check{ID: "C14", Run: func(rc *explore.RunCtx) {
		depth := 4
		if !rc.Quick() {
			depth = 5
		}
		rc.Set("depth_bound", depth)
		rc.Set("alphabet_size", len(c14Alphabet()))
		rc.Assume = append(rc.Assume,
			"histories of Add / Add(upper-cased) / Delete / Delete(upper-cased) / Delete(never added) / RegisterInterceptor over 12 literal and parameterised domains (six literals cross the index threshold) up to the depth bound, dedup on the reflective dump of the Hosts value",
			"probes: per pool domain a witness host as is, upper-cased, with :80, with an empty port, with an invalid port, bracketed, bracketed with port, and all edit-distance-1 neighbours over {a . : x}; plus '', '*', unrelated hosts",
			"a second family (depth+1) over wildcard domains that are textual prefixes of one another ({sub}.a.com, {sub}.a.com.cn, {sub}.a.org, {sub}.a.co) and domains with non-ASCII letters, added and deleted in mixed case; probes also carry a lone bracket and capitals in part of the name",
			"fixed trials: domains with two and three parameters and capitals between them (Add as written, Delete lower-cased); an interceptor parameter followed by literal text that overlaps itself ({sub:dotted}.co.co against x.co.co.co)",
			"oracle: accept iff ref.Resolve(live domain patterns, normalise(host)) is non-empty, parameters exactly that pattern's; rejecting leaves no parameters; Delete leaves every other answer unchanged")
		// domain names are case-insensitive wherever they are literal text - also after a brace that is never closed
		for _, d := range []string{"x{ABC.net", "Y}{AB.net", "{sub}.Z{C.net"} {
			h := mux.NewHosts(false)
			host := strings.ReplaceAll(strings.ToLower(d), "{sub}", "x1")
			_, bad := Guard(func() { h.Add(d) })
			before := probeHost(h, host).String()
			_, bad2 := Guard(func() { h.Delete(strings.ToUpper(d[:1]) + d[1:]) })
			after := probeHost(h, host).String()
			rc.Add("states", 2)
			if bad || bad2 || !strings.HasPrefix(before, "match=true") || !strings.HasPrefix(after, "match=false") {
				rc.Report(explore.Violation{Property: "C14", Clause: "C14.match", Class: "unclosed-brace-text-case-sensitive", History: []string{fmt.Sprintf("Add(%q)", d), fmt.Sprintf("Delete(%q)", strings.ToUpper(d[:1])+d[1:])},
					Probe: fmt.Sprintf("Match(Host=%q) after Add and again after Delete", host), Observed: fmt.Sprintf("after Add: %s (panic=%v); after Delete: %s (panic=%v)", before, bad, after, bad2), Expected: "match=true, then match=false: the text of the domain is literal and case-insensitive"})
			}
		}
		// a domain added after RegisterInterceptor whose first token has the same text as the node two earlier domains
		// share (added while the rule was still a regexp): the new domain's parameter is an interceptor parameter
		{
			h := mux.NewHosts(false, "{id:digit}.c.com", "{id:digit}.c.org")
			h.RegisterInterceptor(ref.MatchDigit, "digit")
			_, bad := Guard(func() { h.Add("{id:digit}.c.{tld}") })
			got := probeHost(h, "123.c.net").String()
			rc.Add("states", 1)
			if want := `match=true params={id="123",tld="net"}`; bad || got != want {
				rc.Report(explore.Violation{Property: "C14", Clause: "C14.match", Class: "interceptor-domain-joins-earlier-regexp-node",
					History: []string{`NewHosts("{id:digit}.c.com", "{id:digit}.c.org")`, `RegisterInterceptor(digit)`, `Add("{id:digit}.c.{tld}")`},
					Probe:   `Match(Host="123.c.net")`, Observed: fmt.Sprintf("%s (Add panicked: %v)", got, bad), Expected: want + ": in a domain added after the registration {id:digit} is an interceptor parameter"})
			}
		}
		// a plain parameter whose node was split by a second domain ({sub}.example. + com / org): the literal tail of the
		// split node occurs twice in the host, and only the later occurrence leads to a registered domain
		{
			h := mux.NewHosts(false, "{sub}.example.com")
			host, want := "a.example.x.example.com", `match=true params={sub="a.example.x"}`
			first := probeHost(h, host).String()
			_, bad := Guard(func() { h.Add("{sub}.example.org") })
			second := probeHost(h, host).String()
			_, bad2 := Guard(func() { h.Delete("{sub}.example.org") })
			third := probeHost(h, host).String()
			rc.Add("states", 3)
			if bad || bad2 || first != want || second != want || third != want {
				rc.Report(explore.Violation{Property: "C14", Clause: "C14.match", Class: "split-plain-parameter-first-occurrence-only",
					History: []string{`NewHosts("{sub}.example.com")`, `Add("{sub}.example.org")`, `Delete("{sub}.example.org")`},
					Probe:   fmt.Sprintf("Match(Host=%q) after each step", host), Observed: fmt.Sprintf("%s; %s; %s (panics: %v %v)", first, second, third, bad, bad2),
					Expected: want + " all three times: {sub}.example.com is registered throughout and the other domain never matches this host"})
			}
		}
		// several parameters with capitals in the literal text between them: every stretch outside braces is case-insensitive
		for _, d := range []string{"{t}.API.{r}.Example.net", "{t}.Api.{r}.B.{s}.Net", "X.{t}.Y.{r}"} {
			h := mux.NewHosts(false)
			host := strings.NewReplacer("{t}", "x1", "{r}", "eu", "{s}", "k").Replace(strings.ToLower(d))
			_, bad := Guard(func() { h.Add(d) })
			before := probeHost(h, host+":443").String()
			_, bad2 := Guard(func() { h.Delete(lowerOutsideBraces(d)) })
			after := probeHost(h, host).String()
			rc.Add("states", 2)
			if bad || bad2 || !strings.HasPrefix(before, "match=true") || !strings.HasPrefix(after, "match=false") {
				rc.Report(explore.Violation{Property: "C14", Clause: "C14.match", Class: "multi-parameter-domain-case-sensitive", History: []string{fmt.Sprintf("Add(%q)", d), fmt.Sprintf("Delete(%q)", lowerOutsideBraces(d))},
					Probe: fmt.Sprintf("Match(Host=%q) after Add and Match(Host=%q) after Delete", host+":443", host), Observed: fmt.Sprintf("after Add: %s (panic=%v); after Delete: %s (panic=%v)", before, bad, after, bad2), Expected: "match=true, then match=false: the text between two parameters is literal and case-insensitive"})
			}
		}
		// an interceptor parameter followed by literal text that overlaps itself: every occurrence of that text is a
		// candidate end of the value, also one that starts inside the occurrence the interceptor has just refused
		{
			h := mux.NewHosts(false)
			h.RegisterInterceptor(func(v string) bool { return strings.Contains(v, ".") }, "dotted")
			_, bad := Guard(func() { h.Add("{sub:dotted}.co.co") })
			rc.Add("states", 1)
			for _, host := range []string{"x.co.co.co", "X.CO.co.co:8080"} {
				got := probeHost(h, host).String()
				if want := `match=true params={sub="x.co"}`; bad || got != want {
					rc.Report(explore.Violation{Property: "C14", Clause: "C14.match", Class: "interceptor-overlapping-suffix", History: []string{`RegisterInterceptor(contains a dot, "dotted")`, `Add("{sub:dotted}.co.co")`},
						Probe: fmt.Sprintf("Match(Host=%q)", host), Observed: fmt.Sprintf("%s (Add panicked: %v)", got, bad), Expected: want + `: "x" is refused, "x.co" followed by ".co.co" is the first split the interceptor accepts`})
				}
			}
		}
		explore.BFS(rc, "c14/expand", c14Cfg{}, depth, true, "C14")
		explore.BFS(rc, "c14/expand", c14Cfg{Family: 1}, depth+1, true, "C14 nested wildcard domains, non-ASCII names")
	}})
}
