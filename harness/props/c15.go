package props

import (
	"encoding/json"
	"fmt"
	"mime"
	"net/http"
	"strings"

	"github.com/issue9/mux/v9"
	"github.com/issue9/mux/v9/types"

	"verifharness/explore"
	"verifharness/hv"
)

// ---- C15: version matchers ----

var c15Versions = []string{"v1", "v11", "/v1", "v1/", "/v1/", "v2", "v1/x"}

type c15Item struct {
	Kind     string   `json:"kind"` // path | header
	Param    string   `json:"param"`
	Key      string   `json:"key,omitempty"`
	Versions []string `json:"versions"`
	MaxLen   int      `json:"maxlen"`
	Only     string   `json:"only,omitempty"`
}

func normVersion(v string) string {
	if !strings.HasPrefix(v, "/") {
		v = "/" + v
	}
	if !strings.HasSuffix(v, "/") {
		v += "/"
	}
	return v
}

func headerString2(h http.Header) string { return headerString(h, "") }

func c15Job(raw json.RawMessage) (any, error) {
	var it c15Item
	if err := json.Unmarshal(raw, &it); err != nil {
		return nil, err
	}
	out := &simpleOut{}
	outc := map[string]struct{}{}
	cfg := fmt.Sprintf("%s-version matcher param=%q key=%q versions=%q", it.Kind, it.Param, it.Key, it.Versions)
	rep := func(clause, class, probe, obs, exp string) {
		if it.Only != "" && it.Only != probe {
			return
		}
		n := it
		n.Only = probe
		out.Viols = append(out.Viols, explore.Violation{Property: "C15", Clause: clause, Class: class, Config: cfg, Probe: probe, Observed: obs, Expected: exp, Replay: explore.ItemReplay("c15/config", n)})
		out.Viols = smallestPerSig(out.Viols)
	}
	var m mux.Matcher
	// the version list is the caller's: a view of a longer list, which must read the same after the matcher is built
	vs := append(append(make([]string, 0, len(it.Versions)+1), it.Versions...), "caller-owned-tail")[:len(it.Versions)]
	if it.Kind == "path" {
		m = mux.NewPathVersion(it.Param, vs...)
	} else {
		m = mux.NewHeaderVersion(it.Param, it.Key, func(error) {}, vs...)
	}
	if got, want := strings.Join(vs[:len(vs)+1], " | "), strings.Join(append(append([]string{}, it.Versions...), "caller-owned-tail"), " | "); got != want && it.Only == "" {
		out.Viols = append(out.Viols, explore.Violation{Property: "C15", Clause: "C15.config", Class: "caller-slice-modified", Config: cfg, Probe: "constructor", Observed: "the version list handed over now reads: " + got, Expected: "as handed over: " + want, Replay: explore.ItemReplay("c15/config", it)})
	}
	// another matcher, configured differently, sees every Accept value first: what it concluded is its own business
	decoy := mux.NewHeaderVersion("", "api", func(error) {}, "9", "1")
	try := func(path, accept string, hasAccept bool) {
		q := hv.Req{Method: "GET", Path: path, Host: "h"}
		if hasAccept {
			// "\n" inside the value: the header arrives on two field lines
			lines := strings.Split(accept, "\n")
			q.Header = map[string]string{"Accept": lines[0], "X-Other": "1"}
			if len(lines) > 1 {
				q.Multi = map[string][]string{"Accept": lines[1:]}
			}
			dctx := types.NewContext()
			decoy.Match(hv.NewRequest(q, &hv.Obs{}), dctx)
			dctx.Destroy()
			accept = strings.Join(lines, ",") // several field lines are one comma-separated list
		}
		if strings.HasPrefix(path, "/") && len(path) < 100 {
			q.RawPath = path[:len(path)-1] + fmt.Sprintf("%%%02X", path[len(path)-1]) // the target arrived with its last byte percent-encoded
		}
		probe := q.String()
		if it.Only != "" && it.Only != probe {
			return
		}
		req := hv.NewRequest(q, &hv.Obs{})
		hdrBefore := headerString2(req.Header)
		ctx := types.NewContext()
		ctx.Set("pre", "existing")
		var ok bool
		pv, bad := Guard(func() { ok = m.Match(req, ctx) })
		out.Evals++
		ps := map[string]string{}
		ctx.Range(func(k, v string) { ps[k] = v })
		ctx.Destroy()
		got := fmt.Sprintf("accept=%v path=%q params=%s", ok, req.URL.Path, hv.ParamsString(ps))
		if bad {
			rep("C15.no-panic", "panic", probe, fmt.Sprintf("panic: %v", pv), "no panic")
			return
		}
		// reference
		wantOK, wantPath := false, path
		wantPs := map[string]string{"pre": "existing"}
		if it.Kind == "path" {
			for _, v := range it.Versions {
				nv := normVersion(v)
				if strings.HasPrefix(path, nv) {
					wantOK = true
					wantPath = path[len(nv)-1:]
					if it.Param != "" {
						wantPs[it.Param] = nv[:len(nv)-1]
					}
					break
				}
			}
		} else if hasAccept && accept != "" {
			key := strings.ToLower(it.Key) // parameter names of a media type are case-insensitive; the parser lower-cases them
			if key == "" {
				key = "version"
			}
			if _, params, err := mime.ParseMediaType(accept); err == nil {
				for _, v := range it.Versions {
					if params[key] == v {
						wantOK = true
						if it.Param != "" {
							wantPs[it.Param] = v
						}
						break
					}
				}
			}
		}
		want := fmt.Sprintf("accept=%v path=%q params=%s", wantOK, wantPath, hv.ParamsString(wantPs))
		outc[fmt.Sprintf("%s/accept=%v/rewritten=%v/params=%d", it.Kind, ok, req.URL.Path != path, len(ps))] = struct{}{}
		if got != want {
			class := "wrong-accept"
			switch {
			case ok == wantOK && !ok:
				class = "mutated-on-reject"
			case ok == wantOK && req.URL.Path != wantPath:
				class = "rewrite-wrong-segment"
			case ok == wantOK:
				class = "wrong-param"
			case ok && !wantOK:
				class = "prefix-confusion"
			}
			rep("C15.match", class, probe, got, want)
		}
		if !ok && req.URL.RawPath != q.RawPath {
			rep("C15.untouched", "rawpath-mutated-on-reject", probe, fmt.Sprintf("URL.RawPath=%q", req.URL.RawPath), fmt.Sprintf("URL.RawPath=%q", q.RawPath))
		}
		if h := headerString2(req.Header); h != hdrBefore {
			rep("C15.untouched", "headers-mutated", probe, h, hdrBefore)
		}
	}
	if it.Kind == "path" {
		explore.Strings([]byte{'/', 'v', '1', '2', 'x'}, "", it.MaxLen, func(p string) { try(p, "", false) })
		for _, p := range []string{"/v1/x", "/v1", "/v1/", "/v11/x", "/v1/v1/x", "/xv1/", "v1/x", "/v1/x/y", "/v1/x/", "/V1/x", "//v1/x", "/v1//x", "/v2/\xff", "/v1/" + strings.Repeat("x", 70000)} {
			try(p, "", false)
		}
	} else {
		types := []string{"application/json", "*/*", "", "a", "a/b"}
		params := []string{"", ";version=1", ";version=2", ";VERSION=1", `;version="1"`, "; version=1", ";v=1", ";version=", ";version", ";version=1.0", ";v=2", `;version=""`, ";version=1.0-RC1", ";version=1.0-rc1"}
		try("/x", "", false)
		for _, t := range types {
			for _, p1 := range params {
				for _, p2 := range params {
					try("/x", t+p1+p2, true)
				}
			}
		}
		for _, g := range []string{"application/json;version=1\ntext/plain", "text/plain\napplication/json;version=1", "application/json;version=2\napplication/json;version=1", "a/b\na/b;version=1", "application/json;version=1, text/plain", "application/json;version=1,text/plain;version=2", "text/plain, application/json;version=1", `application/json;version="1,0"`, "application/json;version=1,0", ";;", "a/b;=", "\xff", "a/b;version=1;version=1", "a/b ; version = 1", strings.Repeat("a", 70000)} {
			try("/x", g, true)
		}
	}
	out.Sample = map[string]any{"config": cfg, "inputs": out.Evals}
	out.Outcomes = keys(outc)
	return out, nil
}

func init() {
	explore.RegisterJob("c15/config", c15Job)
	explore.Register(&explore.Check{ID: "C15", Run: func(rc *explore.RunCtx) {
		maxList, maxLen := 2, 7
		if !rc.Quick() {
			maxList, maxLen = 3, 8
		}
		rc.Set("max_version_list", maxList)
		rc.Set("path_max_len", maxLen)
		rc.Assume = append(rc.Assume,
			"path-version matchers: every ordered list of <= 2 (quick) / 3 (thorough) versions from {v1, v11, /v1, v1/, /v1/, v2, v1/x} x param name {\"\", ver} x every path over {/ v 1 2 x} up to length 7/8 (also two 11-entry lists with a version that is a prefix of another) plus witnesses (prefix confusion, repeated version text, 70000-byte path, non-UTF-8)",
			"header-version matchers: key {\"\", version, v} x version lists over {1, 2, 1.0, \"\", 1.0-RC1, 1.0-rc1} x Accept values: 5 media types x all pairs of 12 parameter spellings plus malformed values; mime.ParseMediaType is the stated parser and is used by the reference too",
			"on every input: accept/reject, URL.Path afterwards, the parameters in the context (pre-seeded with one entry) and the request header map are compared with the reference; a rejection must leave all of them untouched")
		var items []c15Item
		var lists [][]string
		var rec func(cur []string)
		rec = func(cur []string) {
			if len(cur) > 0 {
				lists = append(lists, append([]string{}, cur...))
			}
			if len(cur) == maxList {
				return
			}
			for _, v := range c15Versions {
				dup := false
				for _, c := range cur {
					if c == v {
						dup = true
					}
				}
				if !dup {
					rec(append(cur, v))
				}
			}
		}
		rec(nil)
		for _, l := range lists {
			for _, p := range []string{"", "ver"} {
				items = append(items, c15Item{Kind: "path", Param: p, Versions: l, MaxLen: maxLen})
			}
		}
		// a long list (whatever the matcher does differently for many versions) with a version that is a prefix of another
		for _, l := range [][]string{{"v3", "v4", "v5", "v6", "v7", "v8", "v9", "v21", "v1", "v1/x", "v22"}, {"v22", "v1/x", "v9", "v8", "v1", "v7", "v6", "v5", "v4", "v3", "v21"}} {
			for _, p := range []string{"", "ver"} {
				items = append(items, c15Item{Kind: "path", Param: p, Versions: l, MaxLen: maxLen})
			}
		}
		for _, key := range []string{"", "version", "v", "Version"} {
			for _, l := range [][]string{{"1"}, {"2"}, {"1", "2"}, {"2", "1"}, {"1.0"}, {""}, {"", "1"}, {"1", ""}, {"1,0", "1"}, {"1.0-RC1"}, {"1.0-rc1", "1.0-RC1"}} { // version text is compared verbatim, letters included
				for _, p := range []string{"", "hv"} {
					items = append(items, c15Item{Kind: "header", Param: p, Key: key, Versions: l})
				}
			}
		}
		explore.ParMap(rc, "c15/config", items, func(i int, in c15Item, o simpleOut) { mergeSimple(rc, o, "matches") })
		// NewPathVersion("") must panic with a non-runtime value
		pv, bad := Guard(func() { mux.NewPathVersion("v", "v1", "") })
		if !bad || PanicClass(pv) == "runtime.Error" {
			rc.Report(explore.Violation{Property: "C15", Clause: "C15.config", Class: "empty-version-accepted", Probe: `NewPathVersion("v", "v1", "")`, Observed: fmt.Sprintf("panicked=%v class=%s", bad, PanicClass(pv)), Expected: "panic with a non-runtime value"})
		}
	}})
}

var _ = hv.Req{}
