//go:build verif

package props

import (
	"encoding/json"
	"fmt"
	"io"
	"log"
	"log/slog"
	"net/http"
	"sort"
	"strings"

	"github.com/issue9/mux/v9"
	"github.com/issue9/mux/v9/types"

	"verifharness/explore"
	"verifharness/hv"
	"verifharness/ref"
)

// ---- C07: instances are isolated; a quiescent router serves concurrently ----

// (a) distinct instances in parallel. A program creates its own instance and
// runs a few operations on it; two programs run as two threads.

type instProg struct {
	Kind string   `json:"kind"` // router | lock | trace | hosts | group
	Ops  []string `json:"ops"`
}

func (p instProg) String() string { return p.Kind + "{" + strings.Join(p.Ops, ";") + "}" }

// runProg executes the program; yield is called between operations.
// Option values are plain data a program may build once and hand to many constructors; instances built from
// the same Option values must still be independent.
var sharedOptions = []mux.Option{
	mux.WithCORS([]string{"https://a", "https://b"}, []string{"Content-Type", "X-Tok"}, []string{"X-E"}, 600, true),
	mux.WithTrace(hv.TraceH()),
	mux.WithDigitInterceptor("digit"),
	mux.WithURLDomain("https://h/"),
}

// sharedGroupOptions is one option list with room behind it (it grew by append), from which several groups are
// built with NewGroup(..., list...): each Group keeps the caller's slice and must not write behind it.
var sharedGroupOptions = append(make([]mux.Option, 0, 8), mux.WithURLDomain("https://shared/"), mux.WithDigitInterceptor("digit"))

func runProg(p instProg, yield func()) []string {
	var res []string
	add := func(s string) { res = append(res, s); yield() }
	switch p.Kind {
	case "router", "lock", "trace", "shared", "icpt":
		cfg := RouterCfg{Name: "r-" + p.Kind, Lock: p.Kind == "lock", Trace: p.Kind == "trace"}
		var r *Router
		switch p.Kind {
		case "shared":
			r = NewRouter(cfg, sharedOptions...)
		case "icpt":
			r = NewRouter(cfg, mux.WithDigitInterceptor("rule"))
		default:
			r = NewRouter(cfg)
		}
		log := &hv.Log{}
		add("new")
		for _, op := range p.Ops {
			v, bad := Guard(func() {
				switch op {
				case "handleA":
					r.Handle("/a", hv.Route("hA"), nil, "GET")
				case "handleAX":
					r.Handle("/a/{x}", hv.Route("hAX"), nil, "GET", "POST")
				case "anyB":
					r.Handle("/b", hv.Route("hB"), nil)
				case "removeA":
					r.Remove("/a")
				case "clean":
					r.Clean()
				case "use":
					r.Use(hv.MW{Name: "A", Log: log})
				case "handleRule":
					r.Handle("/i/{x:rule}", hv.Route("hI"), nil, "GET") // interceptor in kind icpt, the regexp "rule" elsewhere
				case "getRule":
					add(hv.Serve(r, hv.Req{Method: "GET", Path: "/i/12"}).Summary())
					add(hv.Serve(r, hv.Req{Method: "GET", Path: "/i/rule"}).Summary())
				case "corsA":
					o := hv.Serve(r, hv.Req{Method: "OPTIONS", Path: "/a", Header: map[string]string{"Origin": "https://a", "Access-Control-Request-Method": "GET", "Access-Control-Request-Headers": "content-type"}})
					add(fmt.Sprintf("%d acao=%q vary=%q", o.Status, o.Header.Get("Access-Control-Allow-Origin"), o.Header.Values("Vary")))
				case "getA":
					add(hv.Serve(r, hv.Req{Method: "GET", Path: "/a"}).Summary())
				case "getAX":
					add(hv.Serve(r, hv.Req{Method: "GET", Path: "/a/" + p.Kind}).Summary())
				case "optA":
					add(hv.Serve(r, hv.Req{Method: "OPTIONS", Path: "/a"}).Summary())
				case "optStar":
					o := hv.Serve(r, hv.Req{Method: "OPTIONS", Path: "*"})
					add("OPTIONS * -> " + o.Header.Get("Allow"))
				case "routes":
					add(RoutesString(RoutesOf(r)))
				case "url":
					s, err := r.URL(true, "/a/{x}", map[string]string{"x": "1"})
					add(fmt.Sprintf("%s/%v", s, err != nil))
				}
			})
			if bad {
				add(fmt.Sprintf("panic(%v)", v))
			} else {
				add("ok")
			}
		}
	case "hosts":
		h := mux.NewHosts(false)
		add("new")
		for _, op := range p.Ops {
			v, bad := Guard(func() {
				switch op {
				case "addA":
					h.Add("a.com")
				case "addS":
					h.Add("{s}.b.com")
				case "icpt":
					h.RegisterInterceptor(func(s string) bool { return len(s) == 2 }, "rule")
				case "addRule":
					h.Add("{s:rule}.c.com") // interceptor after "icpt" on THIS instance, else the regexp "rule"
				case "matchRule":
					for _, host := range []string{"xy.c.com", "rule.c.com"} {
						ctx := types.NewContext()
						ok := h.Match(hv.NewRequest(hv.Req{Method: "GET", Path: "/", Host: host}, &hv.Obs{}), ctx)
						ctx.Destroy()
						add(fmt.Sprintf("%s match=%v", host, ok))
					}
				case "delA":
					h.Delete("a.com")
				case "matchA", "matchS":
					host := "a.com"
					if op == "matchS" {
						host = "x.b.com"
					}
					ctx := types.NewContext()
					ok := h.Match(hv.NewRequest(hv.Req{Method: "GET", Path: "/", Host: host}, &hv.Obs{}), ctx)
					ps := map[string]string{}
					ctx.Range(func(k, v string) { ps[k] = v })
					ctx.Destroy()
					add(fmt.Sprintf("match=%v %s", ok, hv.ParamsString(ps)))
				}
			})
			if bad {
				add(fmt.Sprintf("panic(%v)", v))
			} else {
				add("ok")
			}
		}
	case "group", "sgroupA", "sgroupB":
		g := newGroup()
		if p.Kind != "group" {
			g = newGroup(sharedGroupOptions...)
		}
		add("new")
		var r1 *Router
		for _, op := range p.Ops {
			v, bad := Guard(func() {
				switch op {
				case "new1":
					r1 = g.New("g1", mux.NewPathVersion("v", "v1"))
				case "newOwn": // a router with an option of its own on top of the group's
					r1 = g.New("g1", mux.NewPathVersion("v", "v1"), mux.WithURLDomain("https://"+p.Kind+"/"))
				case "urlG":
					if r1 != nil {
						s, err := r1.URL(false, "/a/{x:digit}", map[string]string{"x": "1"})
						add(fmt.Sprintf("%s/%v", s, err != nil))
					}
				case "handle1":
					if r1 != nil {
						r1.Handle("/a/{x}", hv.Route("hG"), nil, "GET")
					}
				case "use":
					g.Use(hv.MW{Name: "A"})
				case "serve":
					add(hv.Serve(g, hv.Req{Method: "GET", Path: "/v1/a/g"}).Summary())
				case "serve404":
					add(hv.Serve(g, hv.Req{Method: "GET", Path: "/zz"}).Summary())
				}
			})
			if bad {
				add(fmt.Sprintf("panic(%v)", v))
			} else {
				add("ok")
			}
		}
	}
	return res
}

func c07Programs() []instProg {
	var ps []instProg
	for _, k := range []string{"router", "lock", "trace"} {
		for _, ops := range [][]string{
			{}, {"handleA", "getA"}, {"handleAX", "getAX"}, {"anyB", "optStar"}, {"handleA", "optA"}, {"handleA", "removeA"}, {"handleAX", "routes"},
			{"handleA", "clean"}, {"use", "getA"}, {"handleA", "use"}, {"optStar"}, {"handleAX", "url"}, {"handleA", "handleAX", "getAX"},
		} {
			ps = append(ps, instProg{k, ops})
		}
	}
	for _, ops := range [][]string{{}, {"addA", "matchA"}, {"addS", "matchS"}, {"addA", "delA"}, {"addA", "addS", "matchS"}, {"icpt", "addRule", "matchRule"}, {"addRule", "matchRule"}} {
		ps = append(ps, instProg{"hosts", ops})
	}
	for _, ops := range [][]string{{}, {"handleA", "corsA"}, {"handleA", "getA"}, {"handleRule", "getRule"}, {"optStar"}} {
		ps = append(ps, instProg{"shared", ops})
	}
	for _, ops := range [][]string{{"handleRule", "getRule"}} {
		ps = append(ps, instProg{"icpt", ops}, instProg{"router", ops})
	}
	for _, ops := range [][]string{{}, {"new1", "handle1", "serve"}, {"use", "serve404"}, {"new1", "use", "serve404"}} {
		ps = append(ps, instProg{"group", ops})
	}
	for _, k := range []string{"sgroupA", "sgroupB"} {
		for _, ops := range [][]string{{"newOwn", "urlG"}, {"new1", "urlG"}} {
			ps = append(ps, instProg{k, ops})
		}
	}
	return ps
}

type c07aItem struct {
	A, B   instProg
	Bound  int   `json:"bound"`
	Only   []int `json:"only,omitempty"`
	Virgin bool  `json:"virgin,omitempty"` // the threads are the first thing this process does; one schedule
}

func c07aJob(raw json.RawMessage) (any, error) {
	var it c07aItem
	if err := json.Unmarshal(raw, &it); err != nil {
		return nil, err
	}
	out := &scenOut{}
	outc := map[string]struct{}{}
	rlog := explore.NewRaceLog()
	rlog.Next()
	name := it.A.String() + " || " + it.B.String()
	var solo [2][]string
	if !it.Virgin {
		solo = [2][]string{runProg(it.A, func() {}), runProg(it.B, func() {})}
	}
	run := func(s *explore.Sched) explore.ExecResult {
		var raceViols []explore.Violation
		res0 := func() explore.ExecResult {
			types.VerifDrainPool()
			var res [2][]string
			progs := [2]instProg{it.A, it.B}
			bodies := make([]func(), 2)
			for t := 0; t < 2; t++ {
				t := t
				bodies[t] = func() { res[t] = runProg(progs[t], s.Yield) }
			}
			races0 := explore.RaceErrors()
			mux.VerifSetHook(s.Hook)
			hv.Point = s.Yield
			s.Run(bodies)
			mux.VerifSetHook(nil)
			hv.Point = nil
			sched := explore.ScheduleString(s.Points())
			mk := func(clause, class, obs, exp string) explore.ExecResult {
				rs := it
				rs.Only = explore.Choices(s.Points())
				return explore.ExecResult{Viols: []explore.Violation{{Property: "C07", Clause: clause, Class: class, Config: "two distinct instances, one per thread", History: []string{name},
					Probe: "schedule " + sched, Observed: obs, Expected: exp, Replay: explore.ItemReplay("c07/instances", rs)}}}
			}
			if s.Diverged != "" {
				return mk("C07.harness", "replay-diverged", s.Diverged, "deterministic replay")
			}
			if d := explore.RaceErrors() - races0; d > 0 {
				classes, summary := explore.RaceClasses(rlog.Next())
				var r explore.ExecResult
				for _, c := range classes {
					r.Viols = append(r.Viols, mk("C07.race-between-instances", "race:"+c, "data race: "+c, "no data race between distinct instances\n"+summary).Viols...)
				}
				if len(r.Viols) == 0 {
					return mk("C07.race-between-instances", "race:unclassified", fmt.Sprintf("%d race report(s)", d), "no data race")
				}
				raceViols = r.Viols
			}
			if s.Deadlock || s.Horizon {
				return mk("C07.deadlock", "deadlock", "threads unfinished, none enabled", "no deadlock")
			}
			for i, o := range sharedGroupOptions[:cap(sharedGroupOptions)] {
				if i >= len(sharedGroupOptions) && o != nil {
					sharedGroupOptions[:cap(sharedGroupOptions)][i] = nil
					return mk("C07.instances-independent", "caller-option-slice-written", fmt.Sprintf("slot %d behind the option list both groups were built from now holds an option", i), "the list handed to NewGroup is read, never appended into")
				}
			}
			for t := 0; t < 2; t++ {
				if e := explore.TakePanic(t); e != nil {
					return mk("C07.fault", "thread-panic:"+shortPanic(e), fmt.Sprintf("thread %d panicked: %v", t, e), "no runtime fault")
				}
				if it.Virgin && solo[t] == nil {
					solo[t] = runProg(progs[t], func() {})
				}
				if strings.Join(res[t], " | ") != strings.Join(solo[t], " | ") {
					return mk("C07.instances-independent", "instance-result-depends-on-other-instance", fmt.Sprintf("thread %d (%s): %s", t, progs[t], strings.Join(res[t], " | ")), "as when run alone: "+strings.Join(solo[t], " | "))
				}
			}
			return explore.ExecResult{Outcome: strings.Join(res[0], "|") + " // " + strings.Join(res[1], "|")}
		}()
		res0.Viols = append(raceViols, res0.Viols...)
		return res0
	}
	onExec := func(s *explore.Sched, r explore.ExecResult) {
		out.Points += int64(len(s.Points()))
		if r.Outcome != "" {
			outc[r.Outcome] = struct{}{}
		}
		out.Viols = append(out.Viols, r.Viols...)
		if out.Sample == nil {
			out.Sample = map[string]any{"programs": name, "schedule": explore.ScheduleString(s.Points())}
		}
	}
	if it.Only != nil || it.Virgin {
		s := explore.NewSched(2, it.Only)
		onExec(s, run(s))
		out.Execs = 1
	} else {
		for b := 0; b <= it.Bound; b++ {
			ex, _ := explore.Explore(2, b, 0, run, onExec)
			out.Execs += ex
			if len(out.Viols) > 0 {
				break
			}
			out.BoundOK = b
		}
	}
	ks := keys(outc)
	sort.Strings(ks)
	if len(ks) > 5 {
		ks = ks[:5]
	}
	out.Outcomes = ks
	return out, nil
}

// (c) quiescent router, concurrent requests

type c07cItem struct {
	Shape   int        `json:"shape"` // 0 = three routes; 1 = reached through a history with >=6 literal siblings and removals
	Lock    bool       `json:"lock"`
	Threads [][]hv.Req `json:"threads"`
	Bound   int        `json:"bound"`
	Only    []int      `json:"only,omitempty"`
}

// quiescentServer builds the immutable server of scenario family (c).
func quiescentServer(lock bool, shape int) http.Handler {
	if shape == 2 {
		// a Group whose routers sit behind composite matchers: the matchers are shared by all requests
		g := newGroup()
		r1 := g.New("g1", mux.AndMatcher(mux.NewHosts(lock, "{sub}.a.com"), mux.NewPathVersion("v", "v1")), mux.WithLock(lock))
		r1.Handle("/u/{id}", hv.Route("hU1"), nil, "GET")
		r2 := g.New("g2", mux.OrMatcher(mux.AndMatcher(mux.NewHosts(lock, "{sub}.b.com"), mux.NewHeaderVersion("hv", "", func(error) {}, "1")), mux.NewPathVersion("v", "v2")), mux.WithLock(lock))
		r2.Handle("/u/{id}", hv.Route("hU2"), nil, "GET")
		return g
	}
	return quiescentRouter(lock, shape)
}

func quiescentRouter(lock bool, shape int) *Router {
	var opts []mux.Option
	switch shape { // the built-in recovery options: whatever they keep between panics is shared by all requests
	case 3:
		opts = append(opts, mux.WithLogRecovery(500, log.New(io.Discard, "", 0)))
	case 4:
		opts = append(opts, mux.WithSLogRecovery(500, slog.New(slog.NewTextHandler(io.Discard, nil))))
	case 5:
		opts = append(opts, mux.WithStatusRecovery(500))
	case 6: // CORS: one configuration object answers every request
		opts = append(opts, mux.WithCORS([]string{"https://a", "https://b"}, []string{"Content-Type", "X-Tok"}, []string{"X-E"}, 600, true))
	}
	r := NewRouter(RouterCfg{Lock: lock}, opts...)
	r.Handle("/u/{id}", hv.Route("hU"), nil, "GET")
	r.Handle(`/u/{id}/p/{n:\d+}`, hv.Route("hUP"), nil, "GET")
	r.Handle("/s", hv.Route("hS"), nil, "GET")
	if shape == 1 {
		// a router that is "no longer being modified" but was: index blocks, removals, a re-registration, a Clean of a prefix
		for _, c := range "abcdefg" {
			r.Handle("/x/"+string(c), hv.Route("hX"+string(c)), nil, "GET")
			r.Handle("/u/{id}/"+string(c), hv.Route("hUc"+string(c)), nil, "GET")
		}
		r.Handle("/x/{id}", hv.Route("hXid"), nil, "GET")
		r.Remove("/x/a")
		r.Remove("/u/{id}/b")
		r.Remove("/s")
		r.Handle("/s", hv.Route("hS"), nil, "GET")
		r.Handle("/y/a", hv.Route("hY"), nil, "GET")
		r.Prefix("/y").Clean()
		r.Use(hv.MW{Name: "A"})
	}
	return r
}

func reqResult(o *hv.Obs) string {
	if o.Paniced {
		return fmt.Sprintf("PANIC(%v)", o.Panic)
	}
	cors := ""
	if o.Header != nil {
		if v := o.Header.Values("Access-Control-Allow-Origin"); len(v) > 0 {
			cors = fmt.Sprintf(" acao=%q allow-headers=%q", v, o.Header.Values("Access-Control-Allow-Headers"))
		}
	}
	return fmt.Sprintf("st=%d h=%s pat=%q entry=%s router=%q%s", o.Status, o.HID, o.Pattern, hv.ParamsString(o.Params), o.Router, cors)
}

func c07cJob(raw json.RawMessage) (any, error) {
	var it c07cItem
	if err := json.Unmarshal(raw, &it); err != nil {
		return nil, err
	}
	out := &scenOut{}
	outc := map[string]struct{}{}
	rlog := explore.NewRaceLog()
	rlog.Next()
	n := len(it.Threads)
	var names []string
	for _, t := range it.Threads {
		var s []string
		for _, q := range t {
			s = append(s, q.String())
		}
		names = append(names, strings.Join(s, ";"))
	}
	name := fmt.Sprintf("shape=%d lock=%v: %s", it.Shape, it.Lock, strings.Join(names, " || "))
	// expected: each request alone on an identical router
	soloR := quiescentServer(it.Lock, it.Shape)
	want := make([][]string, n)
	for t, qs := range it.Threads {
		for _, q := range qs {
			want[t] = append(want[t], reqResult(hv.Serve(soloR, q)))
		}
	}
	run := func(s *explore.Sched) explore.ExecResult {
		var raceViols []explore.Violation
		res0 := func() explore.ExecResult {
			r := quiescentServer(it.Lock, it.Shape)
			types.VerifDrainPool()
			obs := make([][]*hv.Obs, n)
			bodies := make([]func(), n)
			for t := range it.Threads {
				t := t
				bodies[t] = func() {
					for _, q := range it.Threads[t] {
						obs[t] = append(obs[t], hv.Serve(r, q))
						s.Yield()
					}
				}
			}
			races0 := explore.RaceErrors()
			mux.VerifSetHook(s.Hook)
			hv.Point = s.Yield
			s.Run(bodies)
			mux.VerifSetHook(nil)
			hv.Point = nil
			sched := explore.ScheduleString(s.Points())
			mk := func(clause, class, o, exp string) explore.ExecResult {
				rs := it
				rs.Only = explore.Choices(s.Points())
				return explore.ExecResult{Viols: []explore.Violation{{Property: "C07", Clause: clause, Class: class, Config: "quiescent router /u/{id}, /u/{id}/p/{n:\\d+}, /s", History: []string{name},
					Probe: "schedule " + sched, Observed: o, Expected: exp, Replay: explore.ItemReplay("c07/quiescent", rs)}}}
			}
			if s.Diverged != "" {
				return mk("C07.harness", "replay-diverged", s.Diverged, "deterministic replay")
			}
			if d := explore.RaceErrors() - races0; d > 0 {
				classes, summary := explore.RaceClasses(rlog.Next())
				var res explore.ExecResult
				for _, c := range classes {
					res.Viols = append(res.Viols, mk("C07.race-quiescent", "race:"+c, "data race: "+c, "race-free concurrent serving\n"+summary).Viols...)
				}
				if len(res.Viols) == 0 {
					return mk("C07.race-quiescent", "race:unclassified", fmt.Sprintf("%d race report(s)", d), "no data race")
				}
				raceViols = res.Viols
			}
			if s.Deadlock || s.Horizon {
				return mk("C07.deadlock", "deadlock", "threads unfinished, none enabled", "no deadlock")
			}
			var all []string
			for t := 0; t < n; t++ {
				if e := explore.TakePanic(t); e != nil {
					return mk("C07.fault", "thread-panic:"+shortPanic(e), fmt.Sprintf("thread %d panicked: %v", t, e), "no runtime fault")
				}
				for i, o := range obs[t] {
					got := reqResult(o)
					all = append(all, got)
					if got != want[t][i] {
						return mk("C07.own-params", "foreign-params", fmt.Sprintf("T%d %s -> %s", t, it.Threads[t][i], got), want[t][i])
					}
					if !o.Paniced && it.Threads[t][i].Fault == nil /* a handler that panicked never reached its exit */ && o.Kind != "404" && (hv.ParamsString(o.ParamsExit) != hv.ParamsString(o.Params) || o.PatternExit != o.Pattern || o.RouterExit != o.Router) {
						return mk("C07.own-params", "context-reused-while-live", fmt.Sprintf("T%d %s: at handler entry %s pat=%q, at handler exit %s pat=%q", t, it.Threads[t][i], hv.ParamsString(o.Params), o.Pattern, hv.ParamsString(o.ParamsExit), o.PatternExit), "the request keeps its own parameters and node for its whole life time")
					}
				}
			}
			// a context taken from the pool starts empty
			for k := 0; k < 3; k++ {
				ctx := types.NewContext()
				if ctx.Count() != 0 || ctx.Path != "" || ctx.Node() != nil || ctx.RouterName() != "" {
					node := "<nil>"
					if n := ctx.Node(); n != nil {
						node = "route " + n.Pattern()
					}
					return mk("C07.pool-empty", "pool-not-empty", fmt.Sprintf("NewContext(): Count=%d Path=%q Node=%s RouterName=%q", ctx.Count(), ctx.Path, node, ctx.RouterName()), "an empty context")
				}
				defer ctx.Destroy()
			}
			return explore.ExecResult{Outcome: strings.Join(all, " | ")}
		}()
		res0.Viols = append(raceViols, res0.Viols...)
		return res0
	}
	onExec := func(s *explore.Sched, r explore.ExecResult) {
		out.Points += int64(len(s.Points()))
		if r.Outcome != "" {
			outc[r.Outcome] = struct{}{}
		}
		out.Viols = append(out.Viols, r.Viols...)
		if out.Sample == nil {
			out.Sample = map[string]any{"scenario": name, "schedule": explore.ScheduleString(s.Points())}
		}
	}
	if it.Only != nil {
		s := explore.NewSched(n, it.Only)
		onExec(s, run(s))
		out.Execs = 1
	} else {
		for b := 0; b <= it.Bound; b++ {
			ex, _ := explore.Explore(n, b, 0, run, onExec)
			out.Execs += ex
			if len(out.Viols) > 0 {
				break
			}
			out.BoundOK = b
		}
	}
	out.Outcomes = keys(outc)
	return out, nil
}

// (b) history independence

func c07bAlphabet() []Op {
	ops := c04Alphabet()
	return ops
}

type c07bCfg struct {
	Baseline []string `json:"baseline"`
}

// freshVector is what a brand-new router (and a new Hosts / Group) answers.
func freshVector() (v []string) {
	defer func() {
		if e := recover(); e != nil { // whatever made a brand-new instance fault is an observation like any other
			v = append(v, fmt.Sprintf("PANIC while building and observing brand-new instances: %v", e))
		}
	}()
	for _, trace := range []bool{false, true} {
		r := NewRouter(RouterCfg{Trace: trace})
		v = append(v, fmt.Sprintf("trace=%v empty: %s", trace, strings.Join(c17Vector(r, []string{"/posts", "/p/zz"}), " ## ")))
		r.Handle("/posts", hv.Route("h"), nil, "GET", "PUT")
		r.Handle("/p/{x}", hv.Route("h2"), nil, "GET")
		r.Handle("/posts/abc", hv.Route("h3"), nil, "GET", "POST")
		r.Handle("/posts/author", hv.Route("h4"), nil)
		v = append(v, fmt.Sprintf("trace=%v +4 routes: %s", trace, strings.Join(c17Vector(r, []string{"/posts", "/p/zz", "/posts/abc", "/posts/author"}), " ## ")))
	}
	h := mux.NewHosts(false, "a.com", "{s:rule}.c.com") // no interceptor registered on THIS instance: "rule" is a regexp
	ctx := types.NewContext()
	v = append(v, fmt.Sprintf("hosts: %v %v rule-as-regexp: %v %v", h.Match(hv.NewRequest(hv.Req{Host: "a.com"}, &hv.Obs{}), ctx), h.Match(hv.NewRequest(hv.Req{Host: "b.com"}, &hv.Obs{}), ctx),
		h.Match(hv.NewRequest(hv.Req{Host: "rule.c.com"}, &hv.Obs{}), ctx), h.Match(hv.NewRequest(hv.Req{Host: "xy.c.com"}, &hv.Obs{}), ctx)))
	ctx.Destroy()
	ri := NewRouter(RouterCfg{})
	ri.Handle("/i/{x:rule}", hv.Route("hI"), nil, "GET")
	v = append(v, "router rule-as-regexp: "+hv.Serve(ri, hv.Req{Method: "GET", Path: "/i/rule"}).Summary()+" ## "+hv.Serve(ri, hv.Req{Method: "GET", Path: "/i/12"}).Summary())
	rs := NewRouter(RouterCfg{}, sharedOptions...)
	rs.Handle("/a", hv.Route("hA"), nil, "GET")
	oc := hv.Serve(rs, hv.Req{Method: "GET", Path: "/a", Header: map[string]string{"Origin": "https://b"}})
	u, _ := rs.URL(false, "/a", nil)
	v = append(v, fmt.Sprintf("shared options: acao=%q cred=%q url=%q", oc.Header.Get("Access-Control-Allow-Origin"), oc.Header.Get("Access-Control-Allow-Credentials"), u))
	g := newGroup()
	v = append(v, "group: "+hv.Serve(g, hv.Req{Method: "GET", Path: "/x"}).Summary())
	v = append(v, "package lists: "+strings.Join(mux.Methods(), ",")+" / "+strings.Join(mux.AnyMethods(), ","))
	ra := NewRouter(RouterCfg{})
	ra.Handle("/any", hv.Route("hAny"), nil) // Any: uses the package's default method list
	v = append(v, "any: "+RoutesString(RoutesOf(ra)))
	return v
}

func c07bBaseline(raw json.RawMessage) (any, error) { return freshVector(), nil }

type c07bItem struct {
	History  []int    `json:"h"`
	Baseline []string `json:"baseline"`
}

// c07bJob runs ONE history of other-instance activity as the first thing a brand-new process does, then
// observes brand-new instances. Hidden process-wide state is exactly what is being tested, so nothing may
// leak in from other histories: one process per history.
func c07bJob(raw json.RawMessage) (any, error) {
	var it c07bItem
	if err := json.Unmarshal(raw, &it); err != nil {
		return nil, err
	}
	out := &simpleOut{}
	alpha := c07bAlphabet()
	full := make([]Op, len(it.History))
	for i, k := range it.History {
		full[i] = alpha[k]
	}
	// prior activity on OTHER instances: a plain router, a trace router and a Hosts
	r1, _, _ := buildHistory(RouterCfg{Name: "other"}, full)
	r2, _, _ := buildHistory(RouterCfg{Name: "other-trace", Trace: true}, nil)
	for _, o := range full {
		if !(o.K == "handle" && len(o.Ms) == 1 && o.Ms[0] == "TRACE") {
			ApplyImpl(r2, o)
		}
	}
	hs := mux.NewHosts(false, "x.com", "{s}.y.com")
	hs.Delete("x.com")
	hs.RegisterInterceptor(func(s string) bool { return len(s) == 2 }, "rule")
	hs.Add("{s:rule}.w.com")
	r3 := NewRouter(RouterCfg{Name: "other-icpt"}, append([]mux.Option{mux.WithDigitInterceptor("rule")}, sharedOptions...)...)
	r3.Handle("/i/{x:rule}", hv.Route("hI"), nil, "GET")
	hv.Serve(r3, hv.Req{Method: "GET", Path: "/i/12"})
	for _, p := range []string{"/posts", "/posts/author", "/p/zz"} {
		hv.Serve(r1, hv.Req{Method: "OPTIONS", Path: p})
		hv.Serve(r2, hv.Req{Method: "BOGUS", Path: p})
	}
	// a user of the OTHER instances edits the values they handed out (Routes(), Node().Methods()):
	// that must stay that user's business
	for _, rr := range []*Router{r1, r2} {
		for _, ms := range rr.Routes() {
			for i := range ms {
				ms[i] = "CLOBBERED"
			}
			_ = append(ms, "EXTRA")
		}
		for _, p := range []string{"/posts", "/posts/author", "/p/zz", "/posts/abc"} {
			o := hv.Serve(rr, hv.Req{Method: "GET", Path: p})
			for i := range o.MethodsLive {
				o.MethodsLive[i] = "CLOBBERED"
			}
		}
	}
	// ... and the package-level lists
	for _, l := range [][]string{mux.Methods(), mux.AnyMethods()} {
		for i := range l {
			l[i] = "CLOBBERED"
		}
	}
	got := freshVector()
	out.Evals = int64(len(got))
	for i := range got {
		if i < len(it.Baseline) && got[i] != it.Baseline[i] {
			out.Viols = append(out.Viols, explore.Violation{Property: "C07", Clause: "C07.history-independent", Class: "fresh-instance-depends-on-history", History: opsStrings(full),
				Probe: "observation vector of brand-new instances after this activity on other instances (incl. editing the slices those instances handed out)", Observed: got[i], Expected: "as in a virgin process: " + it.Baseline[i],
				Replay: explore.ItemReplay("c07/history1", it)})
			break
		}
	}
	out.Outcomes = []string{fmt.Sprint(len(out.Viols))}
	if len(it.History) == 2 && it.History[0] == 0 && it.History[1] < 3 {
		out.Sample = map[string]any{"other_instance_history": opsStrings(full), "fresh_vector_entries": len(got)}
	}
	return out, nil
}

func init() {
	explore.RegisterJob("c07/instances", c07aJob)
	explore.RegisterJob("c07/quiescent", c07cJob)
	explore.RegisterJob("c07/baseline", c07bBaseline)
	explore.RegisterJob("c07/history1", c07bJob)
	explore.Register(&explore.Check{ID: "C07", Run: func(rc *explore.RunCtx) {
		if !explore.RaceEnabled {
			rc.Fail("C07 needs the -race build (./verif C07)")
			return
		}
		rc.Assume = append(rc.Assume,
			"(a) every unordered pair of 48 instance programs (Router, Router+WithLock, Router+WithTrace, Hosts, Group; each creates its own instance inside its thread and runs up to 3 operations) as two threads, all interleavings at operation boundaries, lock and pool operations and handler entry/exit up to the preemption bound, under -race; each thread's results must equal the same program run alone",
			"(b) every history of other-instance activity over the C04 alphabet (applied to a plain router, mirrored on a WithTrace router, plus a Hosts) up to the depth bound, never merged; afterwards the observation vector of brand-new instances must equal the one measured first thing in a virgin process",
			"(c) an immutable router (with and without WithLock) serving 2-3 threads x 1-2 requests with distinct parameter values; requests can be parked inside their handlers; the pool shim hands out the most recently released context; per request: parameters, node and router name at handler entry and again at handler exit equal those of the request served alone; a context from the pool is empty afterwards")
		minBound := 99
		// (a)
		progs := c07Programs()
		ba, bc, depth := 2, 3, 2
		if !rc.Quick() {
			ba, bc, depth = 3, 4, 3
		}
		var items []c07aItem
		for i, a := range progs {
			for _, b := range progs[i:] {
				items = append(items, c07aItem{A: a, B: b, Bound: ba})
			}
		}
		explore.ParMap(rc, "c07/instances", items, func(i int, in c07aItem, o scenOut) {
			mergeScen(rc, scenario{Name: in.A.String() + "||" + in.B.String()}, o, &minBound)
		})
		// (a') the same pairs, each as the very first activity of a brand-new process (lazily initialised
		// process-wide state is only virgin once per process; the race detector needs no real overlap)
		var vitems []c07aItem
		for _, it := range items {
			it.Virgin = true
			vitems = append(vitems, it)
		}
		explore.ParMapFresh(rc, "c07/instances", vitems, func(i int, in c07aItem, o scenOut) {
			b := 99
			mergeScen(rc, scenario{Name: "virgin " + in.A.String() + "||" + in.B.String()}, o, &b)
			rc.Add("virgin_process_executions", 1)
		})
		// (c)
		reqs := []hv.Req{{Method: "GET", Path: "/u/1"}, {Method: "GET", Path: "/u/2/p/7"}, {Method: "GET", Path: "/s"}, {Method: "GET", Path: "/u/3/p/x"}, {Method: "OPTIONS", Path: "/u/4"}, {Method: "POST", Path: "/u/5/p/8"}}
		var citems []c07cItem
		for _, lock := range []bool{false, true} {
			for i, a := range reqs {
				for _, b := range reqs[i:] {
					citems = append(citems, c07cItem{Lock: lock, Threads: [][]hv.Req{{a}, {b}}, Bound: bc})
					citems = append(citems, c07cItem{Lock: lock, Threads: [][]hv.Req{{a, b}, {b, a}}, Bound: bc - 1})
				}
			}
			for _, tr := range [][]hv.Req{{reqs[0], reqs[1], reqs[2]}, {reqs[0], reqs[1], reqs[3]}, {reqs[1], reqs[5], reqs[4]}, {reqs[0], reqs[0], reqs[1]}} {
				citems = append(citems, c07cItem{Lock: lock, Threads: [][]hv.Req{{tr[0]}, {tr[1]}, {tr[2]}}, Bound: bc - 1})
			}
			// shape 2: a quiescent Group behind And/Or matchers
			acc := map[string]string{"Accept": "application/json;version=1"}
			gq := []hv.Req{{Method: "GET", Path: "/v1/u/1", Host: "s1.a.com"}, {Method: "GET", Path: "/v1/u/2", Host: "s2.a.com"}, {Method: "GET", Path: "/v2/u/3", Host: "s3.b.com"},
				{Method: "GET", Path: "/u/4", Host: "s4.b.com", Header: acc}, {Method: "GET", Path: "/v2/u/5", Host: "s5.a.com"}, {Method: "GET", Path: "/u/6", Host: "zz.com"}}
			for i, a := range gq {
				for _, b := range gq[i:] {
					citems = append(citems, c07cItem{Shape: 2, Lock: lock, Threads: [][]hv.Req{{a}, {b}}, Bound: bc - 1})
				}
			}
			// shapes 3-5: two requests whose handlers panic at the same time on a router with a built-in recovery option
			boom := hv.Req{Method: "GET", Path: "/u/1", Fault: &hv.Fault{Site: "h", Val: "boom"}}
			boom2 := hv.Req{Method: "GET", Path: "/u/2/p/7", Fault: &hv.Fault{Site: "h", Val: "boom2"}}
			for _, shape := range []int{3, 4, 5} {
				citems = append(citems, c07cItem{Shape: shape, Lock: lock, Threads: [][]hv.Req{{boom}, {boom2}}, Bound: bc - 1},
					c07cItem{Shape: shape, Lock: lock, Threads: [][]hv.Req{{boom}, {reqs[1]}}, Bound: bc - 1})
			}
			// shape 6: preflights with different requested-header lists (granted, refused) and origins at the same time
			pf := func(origin, acrh string) hv.Req {
				return hv.Req{Method: "OPTIONS", Path: "/u/1", Header: map[string]string{"Origin": origin, "Access-Control-Request-Method": "GET", "Access-Control-Request-Headers": acrh}}
			}
			cq := []hv.Req{pf("https://a", "content-type"), pf("https://a", "x-bad"), pf("https://b", "x-tok, content-type"), {Method: "GET", Path: "/u/2", Header: map[string]string{"Origin": "https://b"}}, pf("https://evil", "content-type")}
			for i, a := range cq {
				for _, b := range cq[i:] {
					citems = append(citems, c07cItem{Shape: 6, Lock: lock, Threads: [][]hv.Req{{a}, {b}}, Bound: bc - 1})
				}
			}
			citems = append(citems, c07cItem{Shape: 6, Lock: lock, Threads: [][]hv.Req{{cq[0], cq[1]}, {cq[1], cq[0]}}, Bound: bc - 1})
			// shape 1: requests through the nodes whose children were removed / re-indexed
			r1 := []hv.Req{{Method: "GET", Path: "/x/b"}, {Method: "GET", Path: "/x/9"}, {Method: "GET", Path: "/u/1/c"}, {Method: "GET", Path: "/u/2/b"}, {Method: "GET", Path: "/s"}, {Method: "GET", Path: "/x/a"}}
			for i, a := range r1 {
				for _, b := range r1[i:] {
					citems = append(citems, c07cItem{Shape: 1, Lock: lock, Threads: [][]hv.Req{{a}, {b}}, Bound: bc - 1})
				}
			}
		}
		explore.ParMap(rc, "c07/quiescent", citems, func(i int, in c07cItem, o scenOut) {
			mergeScen(rc, scenario{Name: fmt.Sprint(in.Threads)}, o, &minBound)
		})
		rc.Set("preemption_bound_completed", minBound)
		rc.Set("race_detector", "on")
		// (b): baseline from a virgin process
		var baseline []string
		explore.ParMap(rc, "c07/baseline", []int{0}, func(i int, in int, o []string) { baseline = o })
		rc.Set("history_depth", depth)
		// enumerate every model-enabled history up to the depth bound; one fresh process each
		alpha := c07bAlphabet()
		var hitems []c07bItem
		var rec func(h []int, t *ref.Table)
		rec = func(h []int, t *ref.Table) {
			if len(h) > 0 {
				hitems = append(hitems, c07bItem{History: append([]int{}, h...), Baseline: baseline})
			}
			if len(h) == depth {
				return
			}
			for k, op := range alpha {
				if !Enabled(t, op) {
					continue
				}
				t2 := t.Clone()
				ApplyModel(t2, op)
				rec(append(h, k), t2)
			}
		}
		rec(nil, ref.NewTable(nil, false))
		rc.Set("other_instance_histories", len(hitems))
		explore.ParMapFresh(rc, "c07/history1", hitems, func(i int, in c07bItem, o simpleOut) { mergeSimple(rc, o, "fresh_vector_entries") })
	}})
}
