package props

import (
	"encoding/json"
	"fmt"
	"math"
	"sort"
	"strconv"
	"strings"

	"github.com/issue9/mux/v9/types"

	"verifharness/explore"
	"verifharness/hv"
)

// ---- C20: Params accessors ----

var c20Values = []string{"", "0", "1", "-1", "+1", "007", "1.5", "1e3", "NaN", "Inf", "-Inf", "0x10", "1_0", "true", "T", "FALSE", "tRue", "fALSE", "t ", "9223372036854775807",
	"9223372036854775808", "-9223372036854775809", "18446744073709551615", "18446744073709551616", "é", "\xff",
	"100%41.txt", "a%2Fb", "%31", "1%", "-0", "-0.0"} // text that looks percent-escaped is text: the accessors decode nothing

var c20Keys = []string{"", "a", "b"}

type c20Op struct {
	K   string // set del reset renew
	Key string
	Val string
}

func (o c20Op) String() string {
	switch o.K {
	case "set":
		return fmt.Sprintf("Set(%q,%q)", o.Key, o.Val)
	case "del":
		return fmt.Sprintf("Delete(%q)", o.Key)
	case "reset":
		return "Reset()"
	case "fill31":
		return "Set(k00..k30) [31 parameters: above the size the pool keeps]"
	case "renew0":
		return "Destroy();NewContext() [context released as is: parameters set, no node, no path]"
	case "zero":
		return "Destroy(); ctx = new(types.Context) [the zero value is a usable, empty context]"
	}
	return "Destroy();NewContext() [context released dirty: path, node, router name]"
}

func c20Alphabet() []c20Op {
	var ops []c20Op
	for _, k := range c20Keys {
		for _, v := range c20Values {
			ops = append(ops, c20Op{"set", k, v})
		}
		ops = append(ops, c20Op{"del", k, ""})
	}
	return append(ops, c20Op{K: "reset"}, c20Op{K: "renew"}, c20Op{K: "renew0"}, c20Op{"del", "zz", ""}, c20Op{K: "fill31"}, c20Op{K: "zero"})
}

// someNode is a real types.Node taken from a throw-away router (the harness does not implement the interface
// itself, so that it keeps compiling when the interface grows).
var someNode = func() types.Node {
	r := NewRouter(RouterCfg{})
	r.Handle("/dummy", hv.Route("h"), nil, "GET")
	o := hv.Serve(r, hv.Req{Method: "BOGUS", Path: "/dummy"})
	return o.Served.Core().Node
}()

func errStr(e error) string {
	if e == nil {
		return "<nil>"
	}
	return e.Error()
}

// c20Verify compares every accessor with the map model and strconv.
func c20Verify(ctx *types.Context, model map[string]string) (class, obs, exp string, n int64) {
	var ps types.Params = ctx.Params()
	if ctx.Count() != len(model) {
		return "accessor-disagree:Count", fmt.Sprintf("Context.Count()=%d", ctx.Count()), fmt.Sprintf("%d", len(model)), n
	}
	if ps.Count() != len(model) {
		return "accessor-disagree:Count", fmt.Sprintf("Count()=%d", ps.Count()), fmt.Sprintf("%d", len(model)), n
	}
	seen := map[string]string{}
	ps.Range(func(k, v string) { seen[k] = v })
	if fmt.Sprint(sortedMap(seen)) != fmt.Sprint(sortedMap(model)) {
		return "accessor-disagree:Range", fmt.Sprint(sortedMap(seen)), fmt.Sprint(sortedMap(model)), n
	}
	for _, k := range []string{"", "a", "b", "zz"} {
		v, ok := model[k]
		n += 16
		if g, f := ps.Get(k); g != v || f != ok {
			return "accessor-disagree:Get", fmt.Sprintf("Get(%q)=%q,%v", k, g, f), fmt.Sprintf("%q,%v", v, ok), n
		}
		if ps.Exists(k) != ok {
			return "accessor-disagree:Exists", fmt.Sprintf("Exists(%q)=%v", k, !ok), fmt.Sprint(ok), n
		}
		s, err := ps.String(k)
		if ok && (s != v || err != nil) || !ok && (s != "" || err != types.ErrParamNotExists()) {
			return "accessor-disagree:String", fmt.Sprintf("String(%q)=%q,%v", k, s, err), fmt.Sprintf("%q / not-exists error", v), n
		}
		for _, def := range []string{"D1", "D2"} {
			want := def
			if ok {
				want = v
			}
			if g := ps.MustString(k, def); g != want {
				return "must-default:MustString", fmt.Sprintf("MustString(%q,%q)=%q", k, def, g), want, n
			}
		}
		// Int
		{
			g, gerr := ps.Int(k)
			w, werr := strconv.ParseInt(v, 10, 64)
			if !ok {
				if g != 0 || gerr != types.ErrParamNotExists() {
					return "strconv-mismatch:Int", fmt.Sprintf("Int(%q)=%d,%v", k, g, gerr), "0, not-exists error", n
				}
			} else if g != w || errStr(gerr) != errStr(werr) {
				return "strconv-mismatch:Int", fmt.Sprintf("Int(%q) on %q = %d,%v", k, v, g, gerr), fmt.Sprintf("%d,%v", w, werr), n
			}
			for _, def := range []int64{-7, 99} {
				want := def
				if ok && werr == nil {
					want = w
				}
				if m := ps.MustInt(k, def); m != want {
					return "must-default:MustInt", fmt.Sprintf("MustInt(%q,%d) on %q = %d", k, def, v, m), fmt.Sprint(want), n
				}
			}
		}
		// Uint
		{
			g, gerr := ps.Uint(k)
			w, werr := strconv.ParseUint(v, 10, 64)
			if !ok {
				if g != 0 || gerr != types.ErrParamNotExists() {
					return "strconv-mismatch:Uint", fmt.Sprintf("Uint(%q)=%d,%v", k, g, gerr), "0, not-exists error", n
				}
			} else if g != w || errStr(gerr) != errStr(werr) {
				return "strconv-mismatch:Uint", fmt.Sprintf("Uint(%q) on %q = %d,%v", k, v, g, gerr), fmt.Sprintf("%d,%v", w, werr), n
			}
			for _, def := range []uint64{7, 99} {
				want := def
				if ok && werr == nil {
					want = w
				}
				if m := ps.MustUint(k, def); m != want {
					return "must-default:MustUint", fmt.Sprintf("MustUint(%q,%d) on %q = %d", k, def, v, m), fmt.Sprint(want), n
				}
			}
		}
		// Bool
		{
			g, gerr := ps.Bool(k)
			w, werr := strconv.ParseBool(v)
			if !ok {
				if g || gerr != types.ErrParamNotExists() {
					return "strconv-mismatch:Bool", fmt.Sprintf("Bool(%q)=%v,%v", k, g, gerr), "false, not-exists error", n
				}
			} else if g != w || errStr(gerr) != errStr(werr) {
				return "strconv-mismatch:Bool", fmt.Sprintf("Bool(%q) on %q = %v,%v", k, v, g, gerr), fmt.Sprintf("%v,%v", w, werr), n
			}
			for _, def := range []bool{true, false} {
				want := def
				if ok && werr == nil {
					want = w
				}
				if m := ps.MustBool(k, def); m != want {
					return "must-default:MustBool", fmt.Sprintf("MustBool(%q,%v) on %q = %v", k, def, v, m), fmt.Sprint(want), n
				}
			}
		}
		// Float
		{
			g, gerr := ps.Float(k)
			w, werr := strconv.ParseFloat(v, 64)
			if !ok {
				if g != 0 || gerr != types.ErrParamNotExists() {
					return "strconv-mismatch:Float", fmt.Sprintf("Float(%q)=%v,%v", k, g, gerr), "0, not-exists error", n
				}
			} else if math.Float64bits(g) != math.Float64bits(w) || errStr(gerr) != errStr(werr) {
				return "strconv-mismatch:Float", fmt.Sprintf("Float(%q) on %q = %v,%v", k, v, g, gerr), fmt.Sprintf("%v,%v", w, werr), n
			}
			for _, def := range []float64{-2.5, 99} {
				want := def
				if ok && werr == nil {
					want = w
				}
				if m := ps.MustFloat(k, def); math.Float64bits(m) != math.Float64bits(want) {
					return "must-default:MustFloat", fmt.Sprintf("MustFloat(%q,%v) on %q = %v", k, def, v, m), fmt.Sprint(want), n
				}
			}
		}
	}
	return "", "", "", n
}

func sortedMap(m map[string]string) []string {
	var s []string
	for k, v := range m {
		s = append(s, fmt.Sprintf("%q=%q", k, v))
	}
	sort.Strings(s)
	return s
}

// c20Run replays ops on a fresh context; it returns the context, the model and the first failure.
func c20Run(ops []c20Op) (ctx *types.Context, model map[string]string, class, obs, exp string) {
	drainPool()
	ctx = types.NewContext()
	model = map[string]string{}
	var cur c20Op
	defer func() {
		if e := recover(); e != nil {
			class, obs, exp = "panic:"+cur.K, fmt.Sprintf("%s panicked: %v", cur, e), "no panic"
		}
	}()
	for _, o := range ops {
		cur = o
		switch o.K {
		case "zero":
			ctx.Destroy()
			ctx = new(types.Context)
			model = map[string]string{}
		case "fill31":
			for i := 0; i < 31; i++ {
				k := fmt.Sprintf("k%02d", i)
				ctx.Set(k, "v")
				model[k] = "v"
			}
		case "set":
			// alternately through the context itself and through the Params() view handed to handlers
			if len(o.Val)%2 == 0 {
				ctx.Params().Set(o.Key, o.Val)
			} else {
				ctx.Set(o.Key, o.Val)
			}
			model[o.Key] = o.Val
		case "del":
			ctx.Delete(o.Key)
			delete(model, o.Key)
		case "reset":
			ctx.Path = "/some/path"
			ctx.Reset()
			model = map[string]string{}
			if ctx.Path != "" {
				return ctx, model, "reset-keeps-path", fmt.Sprintf("Path=%q after Reset", ctx.Path), `""`
			}
		case "renew", "renew0":
			if o.K == "renew" {
				// make the released context as dirty as a served request leaves it
				ctx.Path = "/left/over"
				ctx.SetRouterName("left-over-router")
				ctx.SetNode(someNode)
			}
			ctx.Destroy()
			ctx = types.NewContext()
			model = map[string]string{}
			if ctx.Count() != 0 || ctx.Path != "" || ctx.Node() != nil || ctx.RouterName() != "" {
				return ctx, model, "pool-not-empty", fmt.Sprintf("NewContext(): Count=%d Path=%q Node=%v RouterName=%q", ctx.Count(), ctx.Path, ctx.Node(), ctx.RouterName()), "an empty context"
			}
		}
	}
	return ctx, model, "", "", ""
}

func c20Expand(raw json.RawMessage) (any, error) {
	var in explore.ExpandIn
	if err := json.Unmarshal(raw, &in); err != nil {
		return nil, err
	}
	alpha := c20Alphabet()
	hist := make([]c20Op, len(in.History))
	for i, k := range in.History {
		hist[i] = alpha[k]
	}
	var kids []explore.Child
	for k, op := range alpha {
		if !in.Want(k) {
			continue
		}
		full := append(append([]c20Op{}, hist...), op)
		var hs []string
		for _, o := range full {
			hs = append(hs, o.String())
		}
		c := explore.Child{Op: k}
		var ctx *types.Context
		var model map[string]string
		var class, obs, exp string
		if pv, bad := Guard(func() { ctx, model, class, obs, exp = c20Run(full) }); bad {
			class, obs, exp = "panic", fmt.Sprintf("panic: %v", pv), "no panic"
			ctx, model = types.NewContext(), map[string]string{}
		}
		if class == "" {
			var n int64
			class, obs, exp, n = c20Verify(ctx, model)
			c.Probes = n
		}
		if class == "" && len(model) > 1 {
			// Range behaves as on a map also when the callback deletes entries it has not reached yet
			ctx2, _, _, _, _ := c20Run(full)
			calls := 0
			ctx2.Range(func(k, v string) {
				calls++
				for other := range model {
					if other != k {
						ctx2.Delete(other)
					}
				}
			})
			if calls != 1 || ctx2.Count() != 1 {
				class, obs, exp = "range-not-like-a-map", fmt.Sprintf("callback ran %d times, Count()=%d afterwards", calls, ctx2.Count()), "1 call (the callback deleted every other entry during its first call), Count()=1"
			}
			ctx2.Destroy()
		}
		if class != "" {
			c.Viols = append(c.Viols, explore.Violation{Property: "C20", Clause: "C20.accessors", Class: class, History: hs, Probe: "all accessors on keys \"\", a, b, zz", Observed: obs, Expected: exp})
		}
		c.Key = explore.Key(ctx) + "|" + strings.Join(sortedMap(model), ",")
		c.Outcomes = []string{fmt.Sprint(len(model))}
		if len(hist) == 1 && k%25 == 3 {
			c.Sample = map[string]any{"history": hs, "model": sortedMap(model), "accessor_results_compared": c.Probes}
		}
		ctx.Destroy()
		kids = append(kids, c)
	}
	return kids, nil
}

func init() {
	explore.RegisterJob("c20/expand", c20Expand)
	explore.Register(&explore.Check{ID: "C20", Run: func(rc *explore.RunCtx) {
		if !poolIsShim {
			rc.Fail("C20 needs the overlay build with the deterministic context pool (./verif C20)")
			return
		}
		depth := 3
		if !rc.Quick() {
			depth = 4
		}
		rc.Set("depth_bound", depth)
		rc.Set("alphabet_size", len(c20Alphabet()))
		rc.Assume = append(rc.Assume,
			"histories of Set(k,v) / Delete(k) / Reset() / Destroy()+NewContext() over keys {\"\", a, b} and 32 values (numeric edge cases, negative zero (compared by bit pattern) around the int64/uint64 limits, signs, NaN/Inf, hex and underscore forms, booleans, trailing space, non-ASCII and non-UTF-8 bytes), dedup on the reflective dump of the context plus the map model; a second pass enumerates every history of length <= 2 without dedup",
			"after every step all accessors are compared on keys \"\", a, b and an absent key: Count/Get/Exists/String/Range against the map model; Int/Uint/Bool/Float against strconv (value, error text, NaN by bit pattern), ErrParamNotExists() by identity for absent keys; every Must* variant with two different defaults",
			"Destroy()+NewContext() runs on the LIFO pool shim, so the context obtained is the one just released, dirtied with path, node, router name and parameters")
		explore.BFS(rc, "c20/expand", struct{}{}, depth, true, "C20")
		explore.BFS(rc, "c20/expand", struct{}{}, 2, false, "C20 no-dedup")
	}})
}
