//go:build !verif

package props

// drainPool: the plain build uses the real sync.Pool, which cannot be drained.
func drainPool() {}

func heldLocks() int64 { return 0 }

const poolIsShim = false
