//go:build !verif

package props

// drainPool: the plain build uses the real sync.Pool, which cannot be drained.
func drainPool() {}

const poolIsShim = false
