package props

import (
	"encoding/json"
	"fmt"
	"github.com/issue9/mux/v9"
	"strings"

	"verifharness/explore"
	"verifharness/hv"
	"verifharness/ref"
)

// ---- C17: a rejected Handle changes nothing ----

type call struct {
	P  string   `json:"p"`
	Ms []string `json:"ms"`
}

func (c call) String() string { return fmt.Sprintf("Handle(%q,[%s])", c.P, qjoin(c.Ms)) }

var c17Methods = []string{"GET", "HEAD", "POST", "PUT", "OPTIONS", "BOGUS"}

// c17Vector is everything the property calls observable.
func c17Vector(r *Router, paths []string) []string {
	v := []string{"routes: " + RoutesString(RoutesOf(r))}
	for _, p := range paths {
		for _, m := range c17Methods {
			q := hv.Req{Method: m, Path: p}
			v = append(v, q.String()+" -> "+hv.Serve(r, q).Summary())
		}
	}
	o := hv.Serve(r, hv.Req{Method: "OPTIONS", Path: "*"})
	hdr := ""
	if o.Header != nil {
		hdr = o.Header.Get("Allow")
	}
	v = append(v, "OPTIONS * -> "+hdr)
	return v
}

func renamed(p *ref.Pattern, flip bool) string {
	var b strings.Builder
	for _, t := range p.Tokens {
		if t.Kind == ref.Lit {
			b.WriteString(t.Text)
			continue
		}
		b.WriteByte('{')
		ig := t.Ignore
		if flip {
			ig = !ig
		}
		if ig {
			b.WriteByte('-')
		}
		if flip {
			b.WriteString(t.Name)
		} else {
			b.WriteString(t.Name + "q")
		}
		if t.Rule != "" {
			b.WriteString(":" + t.Rule)
		}
		b.WriteByte('}')
	}
	return b.String()
}

// c17Calls is the set X of calls tried in a state, each with the model's verdict.
func c17Calls(t *ref.Table, pool []string) []call {
	var x []call
	for _, p := range t.Patterns() {
		for m := range t.Routes[p].Methods {
			x = append(x, call{p, []string{m}})
		}
	}
	lists := [][]string{nil /* Any */, {"GET", "GET"}, {"POST", "GET"}, {"PATCH", "GET"}, {"PATCH", "BOGUS"}, {"BOGUS", "PATCH"}, {"PATCH", "HEAD"}, {"PATCH", "OPTIONS"}, {"PATCH", "TRACE"}, {"get"}, {""}, {"PATCH", ""}, {"HEAD"}, {"OPTIONS"}}
	targets := append([]string{}, pool...)
	targets = append(targets, "/posts/au", "/new", "/p/{x}/yy", "/p/{x}/w", "/p/{x}-w")
	for _, p := range targets {
		for _, l := range lists {
			x = append(x, call{p, l})
		}
	}
	// every method list of length <= 3 over valid, duplicate, unknown and reserved members, in any position
	mset := []string{"GET", "PATCH", "DELETE", "BOGUS", "HEAD"}
	for _, p := range []string{"/posts", "/new"} {
		for _, a := range mset {
			for _, b := range mset {
				x = append(x, call{p, []string{a, b}})
				if p != "/new" {
					continue // triples on the new pattern only: the validation loop does not depend on the node
				}
				for _, c := range mset {
					x = append(x, call{p, []string{a, b, c}})
				}
			}
		}
	}
	for _, bad := range []string{"/posts/{}", "/posts/{x}{y}", "/posts/{x}/{x}", "/posts/{x}/{-x}", "/posts/{-x}/{x:\\d+}", "/p/{x}/{-x}", "/posts/{x:(}", "/posts/au{:a}", "", "/p/{}", "/p/{x}/{:a}", "/posts/{-}", "/posts/{-:\\d+}", "/p/{-}/y"} {
		x = append(x, call{bad, []string{"PATCH"}})
	}
	for _, p := range t.Patterns() {
		pp := t.Routes[p].P
		if len(pp.AllNames()) > 0 {
			x = append(x, call{renamed(pp, false), []string{"PATCH"}}, call{renamed(pp, true), []string{"PATCH"}})
		}
	}
	return x
}

func c17Check(cfg RouterCfg, hist []Op, r *Router, t *ref.Table, c *explore.Child, outc map[string]struct{}, pool []string, paths []string) {
	hs := opsStrings(hist)
	// the state before any of the calls: probing does not change a router, so it is taken once
	before := c17Vector(r, paths)
	kb := explore.Key(r)
	for _, x := range c17Calls(t, pool) {
		verdict, why := t.Judge(x.P, x.Ms)
		if verdict == ref.Accept {
			// the positive clause in this (possibly restructured) state, once per pattern: a valid call is accepted
			if len(x.Ms) == 2 && x.Ms[0] == "POST" && x.Ms[1] == "GET" {
				r2, _, _ := buildHistory(cfg, hist)
				c.Probes++
				if pv, paniced := Guard(func() { r2.Handle(x.P, hv.Route("h:accepted"), nil, x.Ms...) }); paniced {
					class := "false-ambiguity"
					if !strings.Contains(fmt.Sprint(pv), "歧义") {
						class = "valid-call-rejected"
					}
					c.Viols = append(c.Viols, explore.Violation{Property: "C17", Clause: "C17.never-ambiguous", Class: class, Config: cfg.String(), History: hs, Probe: x.String(), Observed: fmt.Sprintf("panic: %v", pv),
						Expected: "accepted: the pattern is well-formed, the method list valid, and no live route is identical to it up to parameter names; live: " + strings.Join(t.Patterns(), " ")})
				}
			}
			continue
		}
		r2, _, _ := buildHistory(cfg, hist) // an identical copy of the state: the call may change it
		pv, paniced := Guard(func() { r2.Handle(x.P, hv.Route("h:rejected"), nil, x.Ms...) })
		c.Probes += int64(len(before)) * 2
		outc[fmt.Sprintf("%s/%v/%s", why, paniced, PanicClass(pv))] = struct{}{}
		rep := func(clause, class, obs, exp string) {
			c.Viols = append(c.Viols, explore.Violation{Property: "C17", Clause: clause, Class: class, Config: cfg.String(), History: hs, Probe: x.String() + " (model: " + why + ")", Observed: obs, Expected: exp})
		}
		if !paniced {
			if verdict == ref.Reject {
				rep("C17.rejected", "accepted:"+why, "Handle returned normally", "panic with an error value ("+why+")")
			}
			continue
		}
		if pc := PanicClass(pv); pc != "error" {
			rep("C17.error-value", "panic-not-error:"+pc, fmt.Sprintf("panic(%T): %v", pv, pv), "panic with an error value")
		}
		if verdict == ref.Reject {
			// a rejected call leaves nothing behind - in particular nothing that lets the same call through next time
			if _, again := Guard(func() { r2.Handle(x.P, hv.Route("h:rejected"), nil, x.Ms...) }); !again {
				rep("C17.rejected", "accepted-on-second-attempt:"+why, "the same Handle call, rejected a moment ago, returned normally", "rejected again ("+why+")")
				continue
			}
		}
		if explore.Key(r2) == kb {
			continue // the private object graph is unchanged, so is everything observable (it is a function of that graph)
		}
		outc["note:private-state-restructured-by-rejected-call"] = struct{}{}
		after := c17Vector(r2, paths)
		for i := range before {
			if before[i] != after[i] {
				class := "changed-dispatch:" + why
				if i == 0 {
					class = "changed-routes:" + why
				} else if i == len(before)-1 {
					class = "changed-options-star:" + why
				}
				rep("C17.unchanged", class, "before: "+before[i]+" ; after: "+after[i], "identical")
				break
			}
		}
	}
}

func c17Paths(pool []string) []string {
	var ps []string
	for _, p := range pool {
		ps = append(ps, Witness(ref.MustParse(p, ref.Interceptors{})))
	}
	// values that contain pieces of the literal text after the parameter: a rejected call that restructures the
	// tree (shorter effective suffix) changes how these resolve
	return append(ps, "/posts/au", "/new", "/posts/", "/p/zz/yy", "/p/a/b/y", "/p/a/y/y", "/p/a/z/y", "/p/a/b/z", "/p/a//y", "/posts/authorx")
}

// c17Alphabet: the C04 alphabet plus a second route below the parameter node, so that its literal suffix gets
// split ({x}/ + y, z) and stays split after one of them is removed.
func c17Alphabet() []Op {
	ops := c04Alphabet()
	return append(ops,
		Op{K: "handle", P: "/p/{x}/z", Ms: []string{"GET"}},
		Op{K: "multi", Ps: []string{"/p/{x}/y", "/p/{x}/z"}, Ms: []string{"GET"}},
		Op{K: "remove", P: "/p/{x}/z"},
	)
}

var c17Pool = append(append([]string{}, c04Pool...), "/p/{x}/z")

var c17Spec = &histSpec{Prop: "C17", Alphabet: c17Alphabet, Check: func(cfg RouterCfg, hist []Op, r *Router, t *ref.Table, c *explore.Child, outc map[string]struct{}) {
	c17Check(cfg, hist, r, t, c, outc, c17Pool, c17Paths(c17Pool))
}}

// c17RulePool: constrained parameters (regexp and interceptor) with two routes below them, so that the literal text
// after the parameter gets split and stays split when one of the two is removed. In such states a rename of the
// remaining route is still ambiguous, and a pattern with a different rule at the same place is still not.
var c17RulePool = []string{"/p/{x:\\d+}/y", "/p/{x:\\d+}/z", "/p/{x:digit}/y", "/p/{x:digit}/z", "/p/{x:\\d+}", "/p/{x:\\d+}/y/{w}"} // the last one: a plain parameter below the constrained one, renamed on its own

func c17RuleAlphabet() []Op {
	var ops []Op
	for _, p := range c17RulePool {
		ops = append(ops, Op{K: "handle", P: p, Ms: []string{"GET"}})
	}
	for _, p := range c17RulePool {
		ops = append(ops, Op{K: "remove", P: p})
	}
	return append(ops, Op{K: "remove", P: "/p/{x:\\d+}/y", Ms: []string{"GET"}})
}

var c17RuleSpec = &histSpec{Prop: "C17", Alphabet: c17RuleAlphabet, Check: func(cfg RouterCfg, hist []Op, r *Router, t *ref.Table, c *explore.Child, outc map[string]struct{}) {
	pool := append(append([]string{}, c17RulePool...), "/p/{s:word}/y", "/p/{s:[0-9]+}/z", "/p/{s}/y", "/p/{s:word}/z", "/p/{-x:digit}/y", "/p/{x:\\d+}/y/{v}", "/p/{x:\\d+}/y/{w:word}")
	paths := []string{"/p/1/y", "/p/1/z", "/p/a/y", "/p/12", "/p/1/", "/p/1/y/y", "/p/1/y/"}
	c17Check(cfg, hist, r, t, c, outc, pool, paths)
}}

// c17NamePool: two routes that differ in the name of their parameter and in the end of the literal text after it.
// A call that is the rename of one of them *to the other's name* is rejected as ambiguous, and it walks the other
// route's node on the way: rejected, it must not leave that node split (/p/1/b/bc is x=1/b only while {x}/bc is whole).
var c17NamePool = []string{"/p/{x}/bc", "/p/{y}/bd", "/p/{x}/q"}

func c17NameAlphabet() []Op {
	var ops []Op
	for _, p := range c17NamePool {
		ops = append(ops, Op{K: "handle", P: p, Ms: []string{"GET"}})
	}
	for _, p := range c17NamePool {
		ops = append(ops, Op{K: "remove", P: p})
	}
	return ops
}

var c17NameSpec = &histSpec{Prop: "C17", Alphabet: c17NameAlphabet, Check: func(cfg RouterCfg, hist []Op, r *Router, t *ref.Table, c *explore.Child, outc map[string]struct{}) {
	pool := append(append([]string{}, c17NamePool...), "/p/{x}/bd", "/p/{y}/bc", "/p/{y}/q", "/p/{y}/b", "/p/{x}/b")
	paths := []string{"/p/1/bc", "/p/1/bd", "/p/1/q", "/p/1/b/bc", "/p/1/b/bd", "/p/1/bc/bd", "/p/1/b", "/p/1/b/q"}
	c17Check(cfg, hist, r, t, c, outc, pool, paths)
}}

// c17EmptyRulePool: the empty-rule spelling {x:} of a named parameter, with routes that split the text after it. A
// same-shape pattern written {u:} is a rename exactly when its whole text matches a live route's.
var c17EmptyRulePool = []string{"/p/{x:}/aab", "/p/{x:}/ac", "/p/{x:}/ab"}

func c17EmptyRuleAlphabet() []Op {
	var ops []Op
	for _, p := range c17EmptyRulePool {
		ops = append(ops, Op{K: "handle", P: p, Ms: []string{"GET"}})
	}
	for _, p := range c17EmptyRulePool {
		ops = append(ops, Op{K: "remove", P: p})
	}
	return ops
}

var c17EmptyRuleSpec = &histSpec{Prop: "C17", Alphabet: c17EmptyRuleAlphabet, Check: func(cfg RouterCfg, hist []Op, r *Router, t *ref.Table, c *explore.Child, outc map[string]struct{}) {
	pool := append(append([]string{}, c17EmptyRulePool...), "/p/{u:}/ab", "/p/{u:}/aab", "/p/{u:}/ac", "/p/{u:}/a", "/p/{u:}/b", "/p/{u:}/aa")
	paths := []string{"/p/1/aab", "/p/1/ac", "/p/1/ab", "/p/1/a/ab", "/p/1/a", "/p/1/b"}
	c17Check(cfg, hist, r, t, c, outc, pool, paths)
}}

// ---- positive clauses over pattern pairs ----

type pairItem struct {
	Router RouterCfg `json:"router"`
	First  int       `json:"first"`
	Pool   []string  `json:"pool"`
}

type pairOut struct {
	Pairs    int64               `json:"pairs"`
	Viols    []explore.Violation `json:"viols"`
	Outcomes []string            `json:"outcomes"`
	Sample   any                 `json:"sample"`
}

func pairJob(raw json.RawMessage) (any, error) {
	var it pairItem
	if err := json.Unmarshal(raw, &it); err != nil {
		return nil, err
	}
	out := &pairOut{}
	outc := map[string]struct{}{}
	ic := Interceptors(it.Router.IC)
	first := it.Pool[it.First]
	for _, second := range it.Pool {
		t := ref.NewTable(ic, false)
		t.Handle(first, "h1", nil, "GET")
		verdict, why := t.Judge(second, []string{"POST"})
		r := NewRouter(it.Router)
		if _, bad := Guard(func() { r.Handle(first, hv.Route("h1"), nil, "GET") }); bad {
			continue // not this property: C01/C05 report unregistrable well-formed patterns
		}
		paths := []string{Witness(ref.MustParse(first, ic))}
		if p2, err := ref.Parse(second, ic); err == nil {
			paths = append(paths, Witness(p2))
		}
		before := c17Vector(r, paths)
		pv, paniced := Guard(func() { r.Handle(second, hv.Route("h2"), nil, "POST") })
		out.Pairs++
		outc[fmt.Sprintf("%v/%s/%v", verdict, why, paniced)] = struct{}{}
		rep := func(clause, class, obs, exp string) {
			out.Viols = append(out.Viols, explore.Violation{Property: "C17", Clause: clause, Class: class, Config: it.Router.String(), History: []string{fmt.Sprintf("Handle(%q,[GET])", first)}, Probe: fmt.Sprintf("Handle(%q,[POST])", second), Observed: obs, Expected: exp,
				Replay: explore.ItemReplay("c17/pairs", pairItem{Router: it.Router, First: 0, Pool: []string{first, second}})})
		}
		switch {
		case verdict == ref.Accept && paniced:
			class := "false-ambiguity"
			if !strings.Contains(fmt.Sprint(pv), "歧义") {
				class = "valid-pattern-rejected"
			}
			rep("C17.never-ambiguous", class, fmt.Sprintf("panic: %v", pv), "accepted: "+second+" is not identical up to parameter names to "+first)
		case verdict == ref.Reject && !paniced:
			rep("C17.rejected", "accepted:"+why, "Handle returned normally", "rejected ("+why+")")
		case verdict == ref.Reject && paniced:
			after := c17Vector(r, paths)
			for i := range before {
				if before[i] != after[i] {
					rep("C17.unchanged", "changed-by-rejected:"+why, "before: "+before[i]+" ; after: "+after[i], "identical")
					break
				}
			}
		}
		if out.Sample == nil && verdict == ref.Reject {
			out.Sample = map[string]any{"first": first, "second": second, "verdict": why, "panicked": paniced}
		}
	}
	out.Viols = smallestPerSig(out.Viols)
	out.Outcomes = keys(outc)
	return out, nil
}

// ---- ordered pairs over unusual but legal pattern spellings ----

// c17ExoticTokens: parameter spellings the parser accepts besides the plain ones (empty rule, braces inside a rule,
// '-' flag), and literal text in which two patterns share the first bytes of a multi-byte character.
var c17ExoticTokens = []string{"a", "/", "/\u4e2d", "/\u4e3d", "\u4e2d", "\u4e3d", "{a}", "{b}", "{-a}", "{--a}", "{a:}", "{b", "{c", "{", "{{}", "x{", "{b:}", "{-b:}", "{a:\\d+}", "{b:\\d+}", "{a:a{}}", "{a:a{x}}", "{a:a{y}}", "{b:a{}}", "{a:x}", "{a:[}]}",
	"/" + strings.Repeat("s", 300)} // literal text longer than one byte can count

func c17ExoticPool() []string {
	var ps []string
	for _, t1 := range c17ExoticTokens {
		ps = append(ps, "/"+t1)
		for _, t2 := range c17ExoticTokens {
			ps = append(ps, "/"+t1+t2)
		}
	}
	return ps
}

var c17ExoticProbes = []string{"/", "/1", "/a", "/x", "/1a", "/a1", "/1/\u4e2d", "/1/\u4e3d", "/\u4e2d", "/\u4e3d", "/a{}", "/a{x}", "/a{y}", "/{a:a1}", "/{a:a", "/ax", "/1/", "/a/", "/}", "/1\u4e2d", "/a\u4e2d"}

type exoticItem struct {
	Prop  string   `json:"prop,omitempty"` // "" = C17 (rejected calls); "C03" = the frame law for accepted calls
	IC    string   `json:"ic"`
	First string   `json:"first"`
	Only  string   `json:"only,omitempty"` // replay: only this second pattern
	Pool  []string `json:"-"`
}

func exoticJob(raw json.RawMessage) (any, error) {
	var it exoticItem
	if err := json.Unmarshal(raw, &it); err != nil {
		return nil, err
	}
	out := &pairOut{}
	outc := map[string]struct{}{}
	cfg := RouterCfg{IC: it.IC}
	ic := Interceptors(it.IC)
	if _, bad := Guard(func() { NewRouter(cfg).Handle(it.First, hv.Route("h1"), nil, "GET") }); bad {
		return out, nil // not registrable on its own: C05 enumerates single patterns
	}
	p1, err1 := ref.Parse(it.First, ic)
	for _, second := range c17ExoticPool() {
		if it.Only != "" && it.Only != second {
			continue
		}
		r := NewRouter(cfg)
		r.Handle(it.First, hv.Route("h1"), nil, "GET")
		if it.Prop == "C05" { // a second route that extends the first one's text, so that the first becomes a node with a child
			Guard(func() { r.Handle(it.First+"a", hv.Route("h1a"), nil, "GET") })
		}
		before := c17Vector(r, c17ExoticProbes)
		pv, paniced := Guard(func() { r.Handle(second, hv.Route("h2"), nil, "POST") })
		out.Pairs++
		rep := func(clause, class, obs, exp string) {
			out.Viols = append(out.Viols, explore.Violation{Property: "C17", Clause: clause, Class: class, Config: cfg.String(), History: []string{fmt.Sprintf("Handle(%q,[GET])", it.First)}, Probe: fmt.Sprintf("Handle(%q,[POST])", second), Observed: obs, Expected: exp,
				Replay: explore.ItemReplay("c17/exotic", exoticItem{Prop: it.Prop, IC: it.IC, First: it.First, Only: second})})
			if it.Prop == "C03" {
				out.Viols[len(out.Viols)-1].Property = "C03"
			}
			if it.Prop == "C05" {
				out.Viols[len(out.Viols)-1].Property = "C05"
			}
		}
		// what the model says, where it has an opinion: both spellings are within the documented syntax
		verdict, why := ref.Either, ""
		if p2, err2 := ref.Parse(second, ic); err1 == nil && err2 == nil && second != it.First {
			switch {
			case textShape(p1) == textShape(p2): // the two texts differ in parameter names and '-' flags only
				verdict, why = ref.Reject, "ambiguous"
			case !ref.SameUpToNames(p1, p2):
				verdict = ref.Accept
			} // else: same route up to names but spelt differently ({a} / {a:}): the property does not say
		}
		outc[fmt.Sprintf("exotic/%v/%v", verdict, paniced)] = struct{}{}
		if it.Prop == "C03" && paniced {
			continue
		}
		if it.Prop == "C05" && !paniced {
			continue
		}
		if !paniced {
			if it.Prop != "C03" {
				if verdict == ref.Reject {
					rep("C17.rejected", "accepted:"+why, "Handle returned normally", "rejected: identical up to parameter names to the only other route")
				}
				continue
			}
			// a pattern without any closing brace is plain text: its own text is a path it answers, also once the node
			// has enough children for the first-byte index (five more literal routes are registered for that)
			for _, x := range indexBlock {
				Guard(func() { r.Handle("/zz"+x, hv.Route("hblock"), nil, "GET") })
				Guard(func() { r.Handle(x, hv.Route("hblock"), nil, "GET") })
			}
			for _, lit := range []string{it.First, second} {
				if strings.ContainsAny(lit, "}") || lit == "" {
					continue
				}
				// (another route may legitimately win the path - a parameter matching the empty string - but it cannot be nobody's)
				if o := hv.Serve(r, hv.Req{Method: "OPTIONS", Path: lit}); o.Paniced || o.Status == 404 {
					rep("C03.frame", "literal-route-lost-by-other-registration", fmt.Sprintf("OPTIONS %q after five more literal routes were registered: %s", lit, o.Summary()), "answered by the route "+lit+" (its text contains no parameter)")
				}
			}
			// an accepted registration adds a route; it takes nothing away from the first one and does not change what
			// the first pattern answers: a path served before is still served, and the first pattern serves no path it
			// did not serve alone (GET only: the second route is registered for POST)
			after := c17Vector(r, c17ExoticProbes)
			for i := 1; i < len(before)-1; i++ {
				if !strings.HasPrefix(before[i], "GET ") {
					continue
				}
				served := func(s string) bool { return !strings.Contains(s, "st=404") }
				byFirst := func(s string) bool { return strings.Contains(s, fmt.Sprintf("pat=%q", it.First)) }
				switch {
				case served(before[i]) && !served(after[i]):
					rep("C03.frame", "route-lost-by-other-registration", "before: "+before[i]+" ; after: "+after[i], "still served: registering "+second+" for POST adds a route")
				case !served(before[i]) && served(after[i]) && byFirst(after[i]) && second != it.First:
					rep("C03.frame", "first-route-answers-new-path", "before: "+before[i]+" ; after: "+after[i], "unchanged: "+it.First+" did not answer this path alone")
				}
			}
			continue
		}
		if pc := PanicClass(pv); pc != "error" {
			rep("C17.error-value", "panic-not-error:"+pc, fmt.Sprintf("panic(%T): %v", pv, pv), "panic with an error value")
		}
		if it.Prop == "C05" {
			// without interceptor rules Handle agrees with CheckSyntax: it may refuse what CheckSyntax accepts only
			// because of what is registered already (a duplicate, an ambiguity), never for the pattern's syntax
			msg := fmt.Sprint(pv)
			if mux.CheckSyntax(second) == nil && !strings.Contains(msg, "歧义") && !strings.Contains(msg, "已经存在") && !strings.Contains(msg, "存在相同") {
				rep("C05.pattern", "handle-rejects-checksyntax-accepts:after-other-route", fmt.Sprintf("panic: %v", pv), "registered, or refused as duplicate / ambiguous: CheckSyntax accepts the pattern")
			}
			continue
		}
		if verdict == ref.Accept {
			class := "false-ambiguity"
			if !strings.Contains(fmt.Sprint(pv), "歧义") {
				class = "valid-pattern-rejected"
			}
			rep("C17.never-ambiguous", class, fmt.Sprintf("panic: %v", pv), "accepted: well-formed and not identical up to parameter names to "+it.First)
		}
		after := c17Vector(r, c17ExoticProbes)
		for i := range before {
			if before[i] != after[i] {
				class := "changed-dispatch-by-rejected"
				if i == 0 {
					class = "changed-routes-by-rejected"
				}
				rep("C17.unchanged", class, "before: "+before[i]+" ; after: "+after[i], "identical: the call was rejected ("+fmt.Sprint(pv)+")")
				break
			}
		}
	}
	out.Viols = smallestPerSig(out.Viols)
	out.Outcomes = keys(outc)
	return out, nil
}

// textShape is the pattern text with every parameter's '-' flag and name blanked out.
func textShape(p *ref.Pattern) string {
	var b strings.Builder
	for _, t := range p.Tokens {
		if t.Kind == ref.Lit {
			b.WriteString(t.Text)
			continue
		}
		body := t.Text[1 : len(t.Text)-1]
		rest := ""
		if k := strings.IndexByte(body, ':'); k >= 0 {
			rest = body[k:]
		}
		b.WriteString("{" + rest + "}")
	}
	return b.String()
}

func c17PairPool(ic string) []string {
	base := poolD(ic, "thorough")
	icp := Interceptors(ic)
	seen := map[string]bool{}
	var pool []string
	add := func(s string) {
		if !seen[s] {
			seen[s] = true
			pool = append(pool, s)
		}
	}
	for _, p := range base {
		add(p)
		pp := ref.MustParse(p, icp)
		if len(pp.AllNames()) > 0 {
			add(renamed(pp, false))
			add(renamed(pp, true))
		}
	}
	return pool
}

func init() {
	c17Spec.register("c17/expand")
	c17RuleSpec.register("c17/expand-rules")
	c17NameSpec.register("c17/expand-names")
	c17EmptyRuleSpec.register("c17/expand-emptyrule")
	explore.RegisterJob("c17/pairs", pairJob)
	explore.RegisterJob("c17/exotic", exoticJob)
	explore.Register(&explore.Check{ID: "C17", Run: func(rc *explore.RunCtx) {
		depth := 2
		if !rc.Quick() {
			depth = 3
		}
		rc.Set("depth_bound", depth)
		rc.Assume = append(rc.Assume,
			"states: every history over the C04 alphabet up to the depth bound (dedup on the reflective key), with and without WithTrace",
			"in every state every call of the rejected-call set X (duplicates, method lists with duplicate/unknown/reserved members in any position, malformed patterns sharing a prefix with live routes, rename-only patterns) is performed on a replayed copy; Routes(), all dispatch outcomes incl. Allow headers and OPTIONS * are compared before/after",
			"a second history family (depth+1, interceptors I1) over routes below regexp and interceptor parameters that split and re-join the literal text after the parameter; in every state renames of live routes must be rejected and same-shape patterns with a different rule (and every other valid call of X with the list [POST GET]) must be accepted",
			"a third history family (depth+1) over /p/{x}/bc, /p/{y}/bd, /p/{x}/q: calls that rename one live route to the parameter name of another (rejected as ambiguous after walking the other route's node) must leave values such as /p/1/b/bc resolved as before",
			"a fourth family (depth+1) over /p/{x:}/aab, /p/{x:}/ac, /p/{x:}/ab (the empty-rule spelling, text after it split between routes) with calls spelled {u:}; every rejected call is repeated at once and must be rejected again",
			"every ordered pair of patterns built from <=2 of 19 unusual tokens (empty rule {a:}, braces inside a rule, '-' flag, literals sharing the first bytes of a multi-byte character): a rejected second call is an error value and changes nothing; where both spellings are within the documented syntax, a rename-only twin is rejected and anything else accepted",
			"positive clauses: every ordered pair over the dispatch pool and its renamed / '-'-flipped variants under I0/I1/I2")
		for _, cfg := range []RouterCfg{{}, {Trace: true}} {
			explore.BFS(rc, "c17/expand", histCfg{Router: cfg}, depth, true, "C17 "+cfg.String())
		}
		// constrained parameters whose literal suffix is split by a sibling route and stays split after its removal
		explore.BFS(rc, "c17/expand-rules", histCfg{Router: RouterCfg{IC: "I1"}}, depth+1, true, "C17 constrained-parameter histories")
		// routes that differ in the parameter name: a rename of one to the other's name is rejected and walks the other's node
		explore.BFS(rc, "c17/expand-names", histCfg{Router: RouterCfg{}}, depth+1, true, "C17 cross-renamed parameters")
		explore.BFS(rc, "c17/expand-emptyrule", histCfg{Router: RouterCfg{}}, depth+1, true, "C17 empty-rule parameters below split nodes")
		var items []pairItem
		for _, ic := range []string{"", "I1", "I2"} {
			pool := c17PairPool(ic)
			for i := range pool {
				items = append(items, pairItem{Router: RouterCfg{IC: ic}, First: i, Pool: pool})
			}
		}
		var xitems []exoticItem
		for _, ic := range []string{"", "I1"} {
			for _, p := range c17ExoticPool() {
				xitems = append(xitems, exoticItem{IC: ic, First: p})
			}
		}
		rc.Set("exotic_patterns", len(c17ExoticPool()))
		explore.ParMap(rc, "c17/exotic", xitems, func(i int, in exoticItem, o pairOut) {
			rc.Add("exotic_pairs", o.Pairs)
			rc.Add("transitions", o.Pairs)
			for _, v := range o.Viols {
				rc.Report(v)
			}
			for _, s := range o.Outcomes {
				rc.Outcome(s)
			}
		})
		explore.ParMap(rc, "c17/pairs", items, func(i int, in pairItem, o pairOut) {
			rc.Add("pattern_pairs", o.Pairs)
			rc.Add("transitions", o.Pairs)
			for _, v := range o.Viols {
				rc.Report(v)
			}
			for _, s := range o.Outcomes {
				rc.Outcome(s)
			}
			if o.Sample != nil {
				rc.Sample(o.Sample)
			}
		})
	}})
}
