// Package props holds the per-property drivers: alphabets, probe sets, oracles.
package props

import (
	"fmt"
	"sort"
	"strings"

	"github.com/issue9/mux/v9"
	"github.com/issue9/mux/v9/types"

	"verifharness/hv"
	"verifharness/ref"
)

type Router = mux.Router[*hv.H]

// RouterCfg selects the immutable configuration of a router under test.
type RouterCfg struct {
	IC    string `json:"ic,omitempty"` // "", "I1", "I2"
	Trace bool   `json:"trace,omitempty"`
	Lock  bool   `json:"lock,omitempty"`
	Name  string `json:"name,omitempty"`
}

func (c RouterCfg) String() string {
	return fmt.Sprintf("router(ic=%s trace=%v lock=%v)", c.IC, c.Trace, c.Lock)
}

// Interceptors returns the model-side interceptor set of a config.
// matchRange accepts "<digits>-<digits>": a value that contains the literal text which may follow it, so the
// matcher has to reject several candidate split points before the right one.
func matchRange(s string) bool {
	i := strings.IndexByte(s, '-')
	return i > 0 && ref.MatchDigit(s[:i]) && ref.MatchDigit(s[i+1:])
}

func Interceptors(ic string) ref.Interceptors {
	switch ic {
	case "I1":
		return ref.Interceptors{"digit": ref.MatchDigit, "word": ref.MatchWord, "any": ref.MatchAny, "range": matchRange}
	case "I2":
		return ref.Interceptors{"digit": ref.MatchDigit, "word": ref.MatchWord, "any": ref.MatchAny, "range": matchRange, `\d+`: ref.MatchDigit}
	}
	return ref.Interceptors{}
}

// Options returns the mux options of a config.
func (c RouterCfg) Options() []mux.Option {
	var o []mux.Option
	switch c.IC {
	case "I1":
		o = append(o, mux.WithDigitInterceptor("digit"), mux.WithWordInterceptor("word"), mux.WithAnyInterceptor("any"), mux.WithInterceptor(matchRange, "range"))
	case "I2":
		o = append(o, mux.WithDigitInterceptor("digit"), mux.WithWordInterceptor("word"), mux.WithAnyInterceptor("any"), mux.WithInterceptor(matchRange, "range"), mux.WithDigitInterceptor(`\d+`))
	}
	if c.Trace {
		o = append(o, mux.WithTrace(hv.TraceH()))
	}
	if c.Lock {
		o = append(o, mux.WithLock(true))
	}
	return o
}

// NewRouter builds a real router for the harness handler type.
func NewRouter(c RouterCfg, extra ...mux.Option) *Router {
	name := c.Name
	if name == "" {
		name = "r"
	}
	return mux.NewRouter[*hv.H](name, hv.Call, hv.NotFound(), hv.Build405, hv.BuildOPT, append(c.Options(), extra...)...)
}

// Op is one operation of a history.
type Op struct {
	K  string   `json:"k"`            // handle | remove | clean | pclean | rclean | multi
	P  string   `json:"p,omitempty"`  // pattern / prefix
	Ms []string `json:"ms,omitempty"` // methods
	Ps []string `json:"ps,omitempty"` // multi: several patterns registered with Ms
	MW []string `json:"mw,omitempty"` // handle: middlewares given with the registration
}

func qjoin(ms []string) string {
	q := make([]string, len(ms))
	for i, m := range ms {
		q[i] = m
		if m == "" {
			q[i] = `""`
		}
	}
	return strings.Join(q, ",")
}

func (o Op) String() string {
	switch o.K {
	case "handle":
		if len(o.MW) > 0 {
			return fmt.Sprintf("Handle(%q,[%s],mw%v)", o.P, qjoin(o.Ms), o.MW)
		}
		return fmt.Sprintf("Handle(%q,[%s])", o.P, qjoin(o.Ms))
	case "remove":
		return fmt.Sprintf("Remove(%q,[%s])", o.P, qjoin(o.Ms))
	case "clean":
		return "Clean()"
	case "pclean":
		return fmt.Sprintf("Prefix(%q).Clean()", o.P)
	case "rclean":
		return fmt.Sprintf("Resource(%q).Clean()", o.P)
	case "premove":
		return fmt.Sprintf("Prefix(%q).Remove(%q,[%s])", o.Ps[0], o.P, qjoin(o.Ms))
	case "multi":
		return fmt.Sprintf("Handle*(%s,[%s])", strings.Join(o.Ps, " "), qjoin(o.Ms))
	case "reject":
		return fmt.Sprintf("rejected-Handle(%q,[%s])", o.P, qjoin(o.Ms))
	case "use":
		return "Use(A)"
	}
	return o.K
}

// HID is the canonical handler id for a registration.
func HID(pattern string, ms []string) string {
	return "h:" + pattern + ":" + strings.Join(ms, "+")
}

// Guard runs f and returns the recovered panic value.
func Guard(f func()) (val any, paniced bool) {
	defer func() {
		if e := recover(); e != nil {
			val, paniced = e, true
		}
	}()
	f()
	return
}

// PanicClass classifies a recovered value.
func PanicClass(v any) string {
	if v == nil {
		return "none"
	}
	if _, ok := v.(interface{ RuntimeError() }); ok {
		return "runtime.Error"
	}
	if _, ok := v.(error); ok {
		return "error"
	}
	return fmt.Sprintf("%T", v)
}

// ApplyImpl performs op on the real router. It returns the panic, if any.
func ApplyImpl(r *Router, o Op) (any, bool) {
	return Guard(func() {
		switch o.K {
		case "handle":
			r.Handle(o.P, hv.Route(HID(o.P, o.Ms)), mws(nil, o.MW), o.Ms...)
		case "multi":
			for _, p := range o.Ps {
				r.Handle(p, hv.Route(HID(p, o.Ms)), nil, o.Ms...)
			}
		case "use":
			r.Use(hv.MW{Name: "A"})
		case "reject":
			// a call the model rejects: its panic is the documented outcome and is swallowed here;
			// the state it leaves behind is what the exploration continues from.
			Guard(func() { r.Handle(o.P, hv.Route("h:rejected"), nil, o.Ms...) })
		case "remove":
			r.Remove(o.P, o.Ms...)
		case "premove":
			r.Prefix(o.Ps[0]).Remove(o.P, o.Ms...)
		case "clean":
			r.Clean()
		case "pclean":
			r.Prefix(o.P).Clean()
		case "rclean":
			r.Resource(o.P).Clean()
		default:
			panic("harness: unknown op " + o.K)
		}
	})
}

// Enabled says whether the model accepts op (rejected registrations are not
// part of lifecycle histories; C17 handles them).
func Enabled(t *ref.Table, o Op) bool {
	switch o.K {
	case "handle":
		v, _ := t.Judge(o.P, o.Ms)
		return v == ref.Accept
	case "multi":
		c := t.Clone()
		for _, p := range o.Ps {
			if v, _ := c.Judge(p, o.Ms); v != ref.Accept {
				return false
			}
			c.Handle(p, "", nil, o.Ms...)
		}
		return true
	case "reject":
		v, _ := t.Judge(o.P, o.Ms)
		return v == ref.Reject
	}
	return true
}

// ApplyModel performs op on the model.
func ApplyModel(t *ref.Table, o Op) {
	switch o.K {
	case "handle":
		t.Handle(o.P, HID(o.P, o.Ms), nil, o.Ms...)
	case "multi":
		for _, p := range o.Ps {
			t.Handle(p, HID(p, o.Ms), nil, o.Ms...)
		}
	case "remove":
		t.Remove(o.P, o.Ms...)
	case "premove":
		t.Remove(o.Ps[0]+o.P, o.Ms...)
	case "clean":
		t.Clean("")
	case "pclean":
		t.Clean(o.P)
	case "rclean":
		t.Remove(o.P)
	case "use":
		t.Uses++
	}
}

// Expect is the model's answer for one request on a table.
type Expect struct {
	NotFound bool
	Outcomes []ref.Outcome // admissible (pattern, params)
}

// ExpectFor evaluates the reference resolver.
func ExpectFor(t *ref.Table, path string) Expect {
	out := ref.Resolve(t.Parsed(), path)
	if len(out) == 0 {
		return Expect{NotFound: true}
	}
	return Expect{Outcomes: out}
}

func (e Expect) String() string {
	if e.NotFound {
		return "404"
	}
	var s []string
	for _, o := range e.Outcomes {
		s = append(s, o.String())
	}
	return strings.Join(s, " | ")
}

func sameParams(a, b map[string]string) bool {
	if len(a) != len(b) {
		return false
	}
	for k, v := range a {
		if w, ok := b[k]; !ok || w != v {
			return false
		}
	}
	return true
}

// CheckDispatch compares one observation with the model's expectation.
// It returns "" or (class, observed, expected).
func CheckDispatch(t *ref.Table, q hv.Req, o *hv.Obs, e Expect) (class, observed, expected string) {
	if o.Paniced {
		return "panic:" + shortPanic(o.Panic), fmt.Sprintf("panic: %v", o.Panic), "no panic; " + e.String()
	}
	if o.Called != 1 {
		return "callfunc-count", fmt.Sprintf("CallFunc invoked %d times", o.Called), "exactly once"
	}
	if o.ParamsBad != "" {
		return "params-accessors", o.ParamsBad, "accessors agree"
	}
	if q.Method == "TRACE" && t.Trace {
		if o.Kind != "TRACE" {
			return "trace-not-short-circuited", o.Summary(), "TRACE handler"
		}
		return "", "", ""
	}
	if q.Path == "*" || q.Path == "" {
		if o.Pattern != "" || len(o.Params) != 0 || (o.Kind != "OPT" && o.Kind != "405") {
			return "star-path-routed", o.Summary(), "'*' and the empty path are answered by the server-wide OPTIONS/405 node"
		}
		return "", "", ""
	}
	if e.NotFound {
		if o.Kind != "404" || o.Status != 404 {
			return "served-but-model-404", o.Summary(), "404"
		}
		if len(o.Params) != 0 {
			return "404-with-params", o.Summary(), "404 with no parameters"
		}
		if !o.NodeNil {
			return "404-with-node", o.Summary(), "404 with Node()==nil"
		}
		return "", "", ""
	}
	if o.Kind == "404" {
		return "404-but-model-serves", o.Summary(), e.String()
	}
	var hit *ref.Outcome
	for i := range e.Outcomes {
		if e.Outcomes[i].Pattern == o.Pattern && sameParams(e.Outcomes[i].Params, o.Params) {
			hit = &e.Outcomes[i]
			break
		}
	}
	if hit == nil {
		for i := range e.Outcomes {
			if e.Outcomes[i].Pattern == o.Pattern {
				return "wrong-params", o.Summary(), e.String()
			}
		}
		return "wrong-route", o.Summary(), e.String()
	}
	r := t.Routes[hit.Pattern]
	want := ""
	switch {
	case q.Method == "HEAD" && r.Methods["GET"] != "":
		want = r.Methods["GET"]
	case q.Method == "OPTIONS":
		want = "OPT"
	case r.Methods[q.Method] != "" && q.Method != "HEAD":
		want = r.Methods[q.Method]
	default:
		want = "405"
	}
	if o.CoreID != want {
		return "wrong-handler", o.Summary(), fmt.Sprintf("handler %s on %s", want, hit.String())
	}
	if want == "405" && o.Status != 405 {
		return "wrong-status", o.Summary(), "405"
	}
	return "", "", ""
}

func shortPanic(v any) string {
	s := fmt.Sprint(v)
	if i := strings.IndexAny(s, "[0123456789"); i > 0 {
		s = s[:i]
	}
	s = strings.TrimSpace(s)
	if len(s) > 60 {
		s = s[:60]
	}
	return s
}

// RoutesOf returns Routes() without the "*" entry, methods sorted.
func RoutesOf(r *Router) map[string][]string {
	m := r.Routes()
	out := map[string][]string{}
	for k, v := range m {
		if k == "*" {
			continue
		}
		vv := append([]string(nil), v...)
		sort.Strings(vv)
		out[k] = vv
	}
	return out
}

// RoutesString renders a Routes() map canonically.
func RoutesString(m map[string][]string) string {
	ks := make([]string, 0, len(m))
	for k := range m {
		ks = append(ks, k)
	}
	sort.Strings(ks)
	var b strings.Builder
	for _, k := range ks {
		fmt.Fprintf(&b, "%s[%s] ", k, strings.Join(m[k], ","))
	}
	return b.String()
}

// ModelRoutes is what Routes() must return (without "*").
func ModelRoutes(t *ref.Table) map[string][]string {
	out := map[string][]string{}
	for k := range t.Routes {
		out[k] = t.Allow(k)
	}
	return out
}

var _ types.Node // keep import
