package props

import (
	"encoding/json"
	"fmt"
	"sort"
	"strings"

	"github.com/issue9/mux/v9"

	"verifharness/explore"
	"verifharness/hv"
	"verifharness/ref"
)

// ---- C19: Prefix and Resource are pure shorthand ----

// facade definitions: name → (how it is created, its pattern text, its middleware list in application order)
type facadeDef struct {
	Parent string   // "" = router
	Kind   string   // prefix | resource
	Arg    string   // prefix / pattern argument
	MW     []string // middlewares given at creation
}

var c19Facades = map[string]facadeDef{
	"Pe": {"", "prefix", "", []string{"X"}},
	"Pp": {"", "prefix", "/p", []string{"D"}},
	"Ps": {"", "prefix", "/p/", nil},
	"Pi": {"", "prefix", "/p/{i", nil}, // ends inside a parameter token
	"Pn": {"", "prefix", "p", nil},     // no leading slash
	"Q":  {"Pp", "prefix", "/q", []string{"E", "F"}},
	"Qe": {"Pe", "prefix", "", []string{"Y"}},
	"R":  {"Pp", "resource", "/r/{id}", []string{"G"}},
	"Rr": {"", "resource", "/res", nil},
	"Rq": {"Q", "resource", "", []string{"H"}},
	"Qs": {"Ps", "prefix", "/q", nil}, // below a prefix that ends in '/': /p//q, texts are concatenated verbatim
	// family 1: prefixes that end below one of two overlapping parameter siblings
	"Pa": {"", "prefix", "/p/{a}/x/", nil},
	"Pb": {"", "prefix", "/p/{b}x/", nil},
	// family 2: a prefix whose routes share one parameter node next to two equally ranked siblings
	"Px": {"", "prefix", "/p/{x}/", nil},
	// family 3 (router with interceptors): a resource whose pattern only this router's interceptor set can read -
	// the parameter name is no regexp group name, the rule is an interceptor name
	"Ri": {"", "resource", "/ri/{u-id:digit}", nil},
	"Pj": {"", "prefix", "/pj/{u-id:digit}", nil},
	"Rj": {"Pj", "resource", "/{编号:word}", nil},
	// two facade objects with the same prefix text and equally long, different middleware lists
	"Pm":  {"", "prefix", "/pm", []string{"M1"}},
	"Pm2": {"", "prefix", "/pm", []string{"M2"}},
}

// c19Sys is router A together with its facade objects. They are made once, when the router is made, and live as
// long as it does (the way an application keeps `api := r.Prefix("/api")` around), so a facade also meets
// whatever happened to the router after it was created.
type c19Sys struct {
	a    *Router
	facs map[string]any
}

// facadeBroken stands for a facade object whose creation panicked.
type facadeBroken struct{ pv any }

func newC19Sys(cfg RouterCfg) *c19Sys {
	s := &c19Sys{a: NewRouter(cfg, mux.WithURLDomain("https://d")), facs: map[string]any{}}
	var build func(name string) any
	build = func(name string) any {
		if f, ok := s.facs[name]; ok {
			return f
		}
		d := c19Facades[name]
		var parent any = s.a
		if d.Parent != "" {
			parent = build(d.Parent)
		}
		var f any
		// creating a facade object is a call of the program under test like any other: if it faults, every later
		// call through that object (or one derived from it) counts as having faulted that way
		if pv, bad := Guard(func() {
			switch p := parent.(type) {
			case *Router:
				if d.Kind == "prefix" {
					f = p.Prefix(d.Arg, mws(nil, d.MW)...)
				} else {
					f = p.Resource(d.Arg, mws(nil, d.MW)...)
				}
			case *mux.Prefix[*hv.H]:
				if d.Kind == "prefix" {
					f = p.Prefix(d.Arg, mws(nil, d.MW)...)
				} else {
					f = p.Resource(d.Arg, mws(nil, d.MW)...)
				}
			case facadeBroken:
				panic(p.pv)
			default:
				panic("harness: bad facade " + name)
			}
		}); bad {
			f = facadeBroken{pv}
		}
		s.facs[name] = f
		return f
	}
	names := make([]string, 0, len(c19Facades))
	for n := range c19Facades {
		names = append(names, n)
	}
	sort.Strings(names)
	for _, n := range names {
		build(n)
	}
	return s
}

// text and mws of a facade by the documented concatenation rule (own arguments first, then the parent's).
func facadeText(name string) (string, []string) {
	if name == "" {
		return "", nil
	}
	d := c19Facades[name]
	pt, pm := facadeText(d.Parent)
	return pt + d.Arg, append(append([]string{}, d.MW...), pm...)
}

type fstep struct {
	F      string            `json:"f"` // facade name, "" = router itself
	K      string            `json:"k"` // get post delete put patch any handle remove clean url
	P      string            `json:"p,omitempty"`
	Ms     []string          `json:"ms,omitempty"`
	MW     []string          `json:"mw,omitempty"`
	Strict bool              `json:"strict,omitempty"`
	Params map[string]string `json:"params,omitempty"`
}

func (s fstep) String() string {
	f := s.F
	if f == "" {
		f = "Router"
	}
	switch s.K {
	case "remove":
		return fmt.Sprintf("%s.Remove(%q,[%s])", f, s.P, qjoin(s.Ms))
	case "clean":
		return f + ".Clean()"
	case "url":
		return fmt.Sprintf("%s.URL(%v,%q,%v)", f, s.Strict, s.P, s.Params)
	case "handle":
		return fmt.Sprintf("%s.Handle(%q,[%s],mw%v)", f, s.P, qjoin(s.Ms), s.MW)
	}
	return fmt.Sprintf("%s.%s(%q,mw%v)", f, strings.ToUpper(s.K[:1])+s.K[1:], s.P, s.MW)
}

// c19OrderAlphabet (family 1): two parameter siblings that both match /p/1/x..., each with a route of its own and
// routes below it, registered in either order; cleaning below one of them must leave the other - and which of the
// two answers - exactly as the equivalent Remove calls do.
func c19OrderAlphabet() []fstep {
	return []fstep{
		{F: "Pp", K: "get", P: "/{a}/x"},
		{F: "Pp", K: "get", P: "/{b}x"},
		{F: "Pa", K: "get", P: "c"},
		{F: "Pa", K: "get", P: "d"},
		{F: "Pb", K: "get", P: "c"},
		{F: "Pp", K: "get", P: "/{a}/x/{z}"},
		{F: "Pp", K: "get", P: "/{a}"},   // an end-of-pattern parameter next to the split one: its text is a prefix of every prefix below
		{F: "Pp", K: "get", P: "/{a}/xd"}, // shares /x with the others: {a}/x + d
		{F: "Pa", K: "clean"},
		{F: "Pb", K: "clean"},
		{F: "Pp", K: "remove", P: "/{a}/x"},
		{F: "Pp", K: "remove", P: "/{b}x"},
		{F: "Pa", K: "remove", P: "c"},
		{F: "Pp", K: "fill"},
		{F: "Pp", K: "clean"},
	}
}

// c19RankAlphabet (family 2): /p/{t}- and /p/{u}+- both match /p/1+-; a third parameter sibling /p/{x}/ holds two
// routes, so that removing them one by one re-joins its node on the way while Prefix.Clean drops it in one go: the
// survivors must answer the same either way.
func c19RankAlphabet() []fstep {
	return []fstep{
		{F: "Pp", K: "get", P: "/{t}-"},
		{F: "Pp", K: "get", P: "/{u}+"},
		{F: "Pp", K: "get", P: "/{u}+-"},
		{F: "Px", K: "get", P: "b"},
		{F: "Px", K: "get", P: "c"},
		{F: "Px", K: "clean"},
		{F: "Pp", K: "remove", P: "/{u}+-"},
		{F: "Px", K: "remove", P: "b"},
		{F: "Pp", K: "remove", P: "/{t}-"},
	}
}

// c19IcptAlphabet (family 3, router with the I1 interceptors)
func c19IcptAlphabet() []fstep {
	return []fstep{
		{F: "Ri", K: "get"},
		{F: "Ri", K: "post", MW: []string{"M1"}},
		{F: "Ri", K: "remove", Ms: []string{"GET"}},
		{F: "Ri", K: "clean"},
		{F: "Ri", K: "url", Strict: true, Params: map[string]string{"u-id": "5"}},
		{F: "Ri", K: "url", Params: map[string]string{"u-id": "x"}},
		{F: "Rj", K: "get"},
		{F: "Rj", K: "url", Strict: true, Params: map[string]string{"u-id": "5", "编号": "ab"}},
		{F: "Pj", K: "get", P: "/z"},
		{F: "Pj", K: "clean"},
		{F: "", K: "get", P: "/ri/{u-id:digit}"},
		{F: "Pm", K: "get", P: "/a"},
		{F: "Pm2", K: "get", P: "/b"},
		{F: "Pm2", K: "clean"},
		// TRACE registered by hand (no WithTrace here) and the route removed through the facade without a method list
		{F: "Pj", K: "handle", P: "/t", Ms: []string{"TRACE", "GET"}},
		{F: "Pj", K: "remove", P: "/t"},
	}
}

func c19AlphabetOf(family int) []fstep {
	if family == 1 {
		return c19OrderAlphabet()
	}
	if family == 3 {
		return c19IcptAlphabet()
	}
	if family == 2 {
		return c19RankAlphabet()
	}
	return c19Alphabet()
}

func c19Alphabet() []fstep {
	return []fstep{
		{F: "Pp", K: "get", P: "/y", MW: []string{"M1"}},
		{F: "Pp", K: "post", P: "/y"},
		{F: "Pp", K: "any", P: "/{z}"},
		{F: "Ps", K: "put", P: "y"},
		{F: "Pi", K: "get", P: "d}/x"},
		{F: "Pi", K: "delete", P: "d}"},
		{F: "Pn", K: "get", P: "/y"},
		{F: "Pe", K: "patch", P: "/p/y", MW: []string{"M2"}},
		{F: "Q", K: "get", P: "/z", MW: []string{"M1", "M2"}},
		{F: "Q", K: "handle", P: "/z", Ms: []string{"POST", "PUT"}},
		{F: "Qe", K: "get", P: "/p"},
		{F: "R", K: "get", MW: []string{"M1"}},
		{F: "R", K: "post"},
		{F: "R", K: "handle", Ms: []string{"DELETE", "PATCH"}, MW: []string{"M2"}},
		{F: "Rr", K: "any"},
		{F: "Rq", K: "put"},
		{F: "", K: "get", P: "/p/q", MW: []string{"M1"}},
		{F: "", K: "use", MW: []string{"U"}}, // Router.Use between the creation of the facades and their next call
		{F: "Pp", K: "remove", P: "/y"},
		{F: "Pp", K: "remove", P: "/y", Ms: []string{"GET"}},
		{F: "Q", K: "remove", P: "/z", Ms: []string{"POST"}},
		{F: "R", K: "remove"},
		{F: "R", K: "remove", Ms: []string{"GET"}},
		{F: "R", K: "remove", Ms: []string{"HEAD", "OPTIONS"}}, // names that cannot be removed by hand: nothing happens
		{F: "Pp", K: "remove", P: "/y", Ms: []string{"OPTIONS", "get", "Post"}}, // method names are case-sensitive: "get" names nothing, through a facade as through the router
		{F: "Qs", K: "get", P: "/z"},
		{F: "Qs", K: "url", P: "/z"},
		{F: "Pp", K: "clean"},
		{F: "Ps", K: "clean"},
		{F: "Pi", K: "clean"},
		{F: "Q", K: "clean"},
		{F: "Pe", K: "clean"},
		{F: "R", K: "clean"},
		{F: "Rq", K: "clean"},
		{F: "Pp", K: "url", P: "/{z}", Params: map[string]string{"z": "1"}},
		{F: "Pp", K: "url", Strict: true, P: "/{z}", Params: map[string]string{"z": "1"}},
		{F: "Pi", K: "url", Strict: true, P: "d}/x", Params: map[string]string{"id": "5"}},
		{F: "R", K: "url", Strict: true, Params: map[string]string{"id": "5"}},
		{F: "R", K: "url", Params: map[string]string{"x": "5"}},
		{F: "Rq", K: "url", Strict: true},
		{F: "Pp", K: "url", P: "/{z}"}, // no parameters at all
		{F: "R", K: "url"},
		// four more literal siblings under /p/ in one step: the node gets its first-byte index
		{F: "Pp", K: "fill"},
		{F: "Ps", K: "remove", P: "a2"},
	}
}

var kindMethods = map[string][]string{"get": {"GET"}, "post": {"POST"}, "delete": {"DELETE"}, "put": {"PUT"}, "patch": {"PATCH"}, "any": nil}

// applyFacade runs the step on router a through the facade objects.
func applyFacade(sys *c19Sys, s fstep) (string, any, bool) {
	var res string
	a := sys.a
	pv, bad := Guard(func() {
		full, _ := facadeText(s.F)
		h := hv.Route("h:" + full + s.P + ":" + s.K + strings.Join(s.Ms, "+"))
		var fac any
		if s.F != "" {
			fac = sys.facs[s.F]
		}
		m := spare(nil, s.MW)
		if s.F == "" {
			switch s.K {
			case "use":
				a.Use(mws(nil, s.MW)...)
			case "get":
				a.Get(s.P, h, m...)
			case "url":
				u, err := a.URL(s.Strict, s.P, s.Params)
				res = fmt.Sprintf("%q err=%v", u, err != nil)
			}
			return
		}
		switch f := fac.(type) {
		case facadeBroken:
			panic(fmt.Sprintf("creating the facade object %s panicked: %v", s.F, f.pv))
		case *mux.Prefix[*hv.H]:
			switch s.K {
			case "get":
				f.Get(s.P, h, m...)
			case "post":
				f.Post(s.P, h, m...)
			case "delete":
				f.Delete(s.P, h, m...)
			case "put":
				f.Put(s.P, h, m...)
			case "patch":
				f.Patch(s.P, h, m...)
			case "any":
				f.Any(s.P, h, m...)
			case "fill":
				for _, x := range []string{"/a1", "/a2", "/b1", "/c1"} {
					f.Get(x, hv.Route("h:fill"+x))
				}
			case "handle":
				f.Handle(s.P, h, m, s.Ms...)
			case "remove":
				f.Remove(s.P, s.Ms...)
			case "clean":
				f.Clean()
			case "url":
				u, err := f.URL(s.Strict, s.P, s.Params)
				res = fmt.Sprintf("%q err=%v", u, err != nil)
			}
		case *mux.Resource[*hv.H]:
			switch s.K {
			case "get":
				f.Get(h, m...)
			case "post":
				f.Post(h, m...)
			case "delete":
				f.Delete(h, m...)
			case "put":
				f.Put(h, m...)
			case "patch":
				f.Patch(h, m...)
			case "any":
				f.Any(h, m...)
			case "handle":
				f.Handle(h, m, s.Ms...)
			case "remove":
				f.Remove(s.Ms...)
			case "clean":
				f.Clean()
			case "url":
				u, err := f.URL(s.Strict, s.Params)
				res = fmt.Sprintf("%q err=%v", u, err != nil)
			}
		}
	})
	return res, pv, bad
}

// applyPlain is the desugared program: plain Router calls with concatenated patterns and middleware lists.
func applyPlain(b *Router, s fstep) (string, any, bool) {
	var res string
	pv, bad := Guard(func() {
		text, fm := facadeText(s.F)
		pattern := text + s.P
		h := hv.Route("h:" + text + s.P + ":" + s.K + strings.Join(s.Ms, "+"))
		all := mws(nil, append(append([]string{}, s.MW...), fm...))
		switch s.K {
		case "use":
			b.Use(mws(nil, s.MW)...)
		case "get", "post", "delete", "put", "patch", "any":
			b.Handle(pattern, h, all, kindMethods[s.K]...)
		case "fill":
			for _, x := range []string{"/a1", "/a2", "/b1", "/c1"} {
				b.Handle(text+x, hv.Route("h:fill"+x), mws(nil, fm), "GET")
			}
		case "handle":
			b.Handle(pattern, h, all, s.Ms...)
		case "remove":
			b.Remove(pattern, s.Ms...)
		case "clean":
			if c19Facades[s.F].Kind == "resource" {
				b.Remove(pattern)
				return
			}
			var del []string
			for p := range b.Routes() {
				if p != "*" && strings.HasPrefix(p, pattern) {
					del = append(del, p)
				}
			}
			sort.Strings(del)
			for _, p := range del {
				b.Remove(p)
			}
		case "url":
			u, err := b.URL(s.Strict, pattern, s.Params)
			res = fmt.Sprintf("%q err=%v", u, err != nil)
		}
	})
	return res, pv, bad
}

var c19Probes = func() []hv.Req {
	var qs []hv.Req
	paths := []string{"/p/a1", "/p/a2", "/p/c1", "/p/y", "/p/zz", "/py", "/p/7/x", "/p/7", "p/y", "/p/q/z", "/p", "/p/r/5", "/res", "/p/q", "/p/q/", "/nowhere",
		"/p/1/x", "/p/1/x/c", "/p/1x/c", "/p/1/x/x", "/p/1/x/x/c", "/p/1/x/xd", "/p/1/xd", "/p/1", "/p//q/z", "/p/q/z"}
	for _, p := range paths {
		for _, m := range []string{"GET", "POST", "DELETE", "PUT", "PATCH", "OPTIONS", "BOGUS", "HEAD"} {
			qs = append(qs, hv.Req{Method: m, Path: p})
		}
	}
	return append(qs, hv.Req{Method: "OPTIONS", Path: "*"})
}()

var c19RankProbes = func() []hv.Req {
	var qs []hv.Req
	for _, p := range []string{"/p/1+-", "/p/1+", "/p/1-", "/p/1/b", "/p/1/c", "/p/1/b+-", "/p/1+--", "/p/1"} {
		for _, m := range []string{"GET", "POST", "OPTIONS"} {
			qs = append(qs, hv.Req{Method: m, Path: p})
		}
	}
	return append(qs, hv.Req{Method: "OPTIONS", Path: "*"})
}()

var c19IcptProbes = func() []hv.Req {
	var qs []hv.Req
	for _, p := range []string{"/ri/5", "/ri/x", "/pj/5/ab", "/pj/5/z", "/pj/5", "/pj/x/ab", "/pm/a", "/pm/b", "/pj/5/t"} {
		for _, m := range []string{"GET", "POST", "OPTIONS", "TRACE"} {
			qs = append(qs, hv.Req{Method: m, Path: p})
		}
	}
	return append(qs, hv.Req{Method: "OPTIONS", Path: "*"})
}()

func c19Vector(r *Router, family int) []string {
	v := []string{"Routes(): " + RoutesString(RoutesOf(r))}
	probes := c19Probes
	if family == 2 {
		probes = c19RankProbes
	}
	if family == 3 {
		probes = c19IcptProbes
	}
	for _, q := range probes {
		v = append(v, q.String()+" -> "+hv.Serve(r, q).Summary())
	}
	return v
}

func buildC19(cfg RouterCfg, steps []fstep) (a *c19Sys, b *Router, perr string) {
	a, b = newC19Sys(cfg), NewRouter(cfg, mux.WithURLDomain("https://d"))
	for _, s := range steps {
		_, pa, ba := applyFacade(a, s)
		_, _, bb := applyPlain(b, s)
		if ba != bb {
			return a, b, fmt.Sprintf("%s: facade panicked=%v (%v), plain panicked=%v", s, ba, pa, bb)
		}
	}
	return a, b, ""
}

func c19Expand(raw json.RawMessage) (any, error) {
	var in explore.ExpandIn
	if err := json.Unmarshal(raw, &in); err != nil {
		return nil, err
	}
	var cfg c19Cfg
	json.Unmarshal(in.Cfg, &cfg)
	alpha := c19AlphabetOf(cfg.Family)
	hist := make([]fstep, len(in.History))
	for i, k := range in.History {
		hist[i] = alpha[k]
	}
	var kids []explore.Child
	for k, st := range alpha {
		if !in.Want(k) {
			continue
		}
		full := append(append([]fstep{}, hist...), st)
		var hs []string
		for _, s := range full {
			hs = append(hs, s.String())
		}
		a, b, perr := buildC19(cfg.Router, hist)
		if perr != "" {
			return nil, fmt.Errorf("parent not replayable: %s", perr)
		}
		c := explore.Child{Op: k}
		rep := func(clause, class, probe, obs, exp string) {
			c.Viols = append(c.Viols, explore.Violation{Property: "C19", Clause: clause, Class: class, Config: cfg.Router.String(), History: hs, Probe: probe, Observed: obs, Expected: exp})
		}
		ra, pa, ba := applyFacade(a, st)
		rb, pb, bb := applyPlain(b, st)
		switch {
		case ba != bb:
			rep("C19.same-panics", "facade-differs:panic:"+st.K, st.String(), fmt.Sprintf("facade panicked=%v (%v)", ba, pa), fmt.Sprintf("as the plain Router call: panicked=%v (%v)", bb, pb))
			c.Key, c.NoExpand = "diverged:"+explore.Key(a.a, b), true
			kids = append(kids, c)
			continue
		case ba && PanicClass(pa) != PanicClass(pb):
			rep("C19.same-panics", "facade-differs:panic-kind:"+st.K, st.String(), PanicClass(pa), PanicClass(pb))
		case ra != rb:
			rep("C19.url", "facade-differs:url", st.String(), ra, "as Router.URL on the concatenated pattern: "+rb)
		}
		va, vb := c19Vector(a.a, cfg.Family), c19Vector(b, cfg.Family)
		c.Probes = int64(2 * len(va))
		for i := range va {
			if va[i] != vb[i] {
				class := "facade-differs:" + st.K
				if st.K == "clean" {
					class = "clean-differs"
					if i == 0 {
						// which way?
						if len(va[0]) > len(vb[0]) {
							class = "clean-underreach"
						} else {
							class = "clean-overreach"
						}
					}
				} else if strings.Contains(va[i], "h=") && strings.Contains(vb[i], "h=") && sameButHandlerChain(va[i], vb[i]) {
					class = "middleware-order:" + st.K
				}
				rep("C19.same-behaviour", class, "after "+st.String(), "facade router: "+va[i], "plain router:  "+vb[i])
				break
			}
		}
		// Prefix.Clean removes exactly the routes whose pattern starts with the prefix
		c.Key = explore.Key(a.a) + "|" + explore.Key(b)
		if ba {
			c.NoExpand = false
		}
		outc := map[string]struct{}{va[0]: {}}
		c.Outcomes = keys(outc)
		c.Viols = smallestPerSig(c.Viols)
		if len(hist) == 1 && k < 2 {
			c.Sample = map[string]any{"program": hs, "routes": va[0]}
		}
		kids = append(kids, c)
	}
	return kids, nil
}

func sameButHandlerChain(a, b string) bool {
	strip := func(s string) string {
		i := strings.Index(s, " h=")
		j := strings.Index(s, " pat=")
		if i < 0 || j < i {
			return s
		}
		return s[:i] + s[j:]
	}
	return strip(a) == strip(b)
}

var _ = ref.Lit

type c19Cfg struct {
	Router RouterCfg `json:"router"`
	Family int       `json:"family"`
}

func init() {
	explore.RegisterJob("c19/expand", c19Expand)
	explore.Register(&explore.Check{ID: "C19", Run: func(rc *explore.RunCtx) {
		depth := 4
		if !rc.Quick() {
			depth = 6
		}
		rc.Set("depth_bound", depth)
		rc.Set("alphabet_size", len(c19Alphabet()))
		rc.Assume = append(rc.Assume,
			"programs: every sequence up to the depth bound over 35 facade calls (Get/Post/Delete/Put/Patch/Any/Handle with per-route middlewares, Remove, Clean, URL strict and not) through 10 facade objects: Prefix(\"\",X), Prefix(/p,D), Prefix(/p/), Prefix(/p/{i) (ends inside a parameter token), Prefix(p), nested Prefix(/q,E,F), nested empty Prefix, Resource(/r/{id},G) under a prefix, Router.Resource(/res), Resource(\"\") under a nested prefix",
			"each program runs on router A as written and, desugared by a translator that only concatenates patterns and middleware lists (Prefix.Clean = remove every live pattern with that textual prefix), on router B through Router.Handle/Remove/URL; after every step Routes(), 105 dispatch observations (status, full middleware chain, pattern, Allow, params), URL results and panics must be identical",
			"the facade objects are created once, with the router, and live as long as it does; Router.Use is in the alphabet, so a facade is also called after the router's middleware list changed",
			"second family (depth+1): two overlapping parameter siblings /p/{a}/x and /p/{b}x with routes of their own and below them, registered in either order, Prefix.Clean below either of them, removals, the index block: which of the two answers /p/1/x... must be what the equivalent Remove calls leave",
			"third family (depth+2): equally ranked parameter siblings /p/{t}- and /p/{u}+ (+-) that both match /p/1+-, next to Prefix(/p/{x}/) with two routes: Prefix.Clean against removing them one by one (which re-joins the shared node on the way)",
			"fourth family (router with interceptors): Resource and Prefix.Resource objects whose patterns only that router's interceptor set can read ({u-id:digit}, {编号:word}); creating a facade object counts as a call of the program",
			"dedup on the pair of reflective dumps")
		for _, cfg := range []RouterCfg{{}, {Trace: true}} {
			explore.BFS(rc, "c19/expand", c19Cfg{Router: cfg}, depth, true, "C19 "+cfg.String())
		}
		explore.BFS(rc, "c19/expand", c19Cfg{Router: RouterCfg{}, Family: 1}, depth+1, true, "C19 overlapping parameter siblings")
		explore.BFS(rc, "c19/expand", c19Cfg{Router: RouterCfg{}, Family: 2}, depth+2, true, "C19 equally ranked parameter siblings")
		explore.BFS(rc, "c19/expand", c19Cfg{Router: RouterCfg{IC: "I1"}, Family: 3}, depth, true, "C19 facades on a router with interceptors")
	}})
}
