package props

import (
	"encoding/json"
	"fmt"
	"net/http"
	"sort"
	"strconv"
	"strings"

	"github.com/issue9/mux/v9"

	"verifharness/explore"
	"verifharness/hv"
	"verifharness/ref"
)

// ---- C11 (CORS never grants more) and C12 (grants exactly what was configured) ----

type corsCfg struct {
	Origins []string `json:"origins"`
	Headers []string `json:"headers"`
	Exposed []string `json:"exposed"`
	MaxAge  int      `json:"maxage"`
	Cred    bool     `json:"cred"`
	// Before: CORS options given earlier in the option list (the last one must win);
	// ViaGroup: the earlier options are the group's, this one is given to Group.New.
	Before   []corsCfg `json:"before,omitempty"`
	ViaGroup bool      `json:"viagroup,omitempty"`
	Table    int       `json:"table"`             // 0 = plain table, 1 = table reached through a history, WithTrace
	Inherit  bool      `json:"inherit,omitempty"` // the option is the group's; the router is made by Group.New without options (the option list is built twice)
}

func (c corsCfg) String() string {
	s := fmt.Sprintf("WithCORS(origins=%v, allowHeaders=%v, exposed=%v, maxAge=%d, credentials=%v)", c.Origins, c.Headers, c.Exposed, c.MaxAge, c.Cred)
	for i := len(c.Before) - 1; i >= 0; i-- {
		how := "earlier option"
		if c.ViaGroup {
			how = "group option"
		}
		s = fmt.Sprintf("[%s: %s] then %s", how, c.Before[i].String(), s)
	}
	if c.Table == 1 {
		s += " table=history+trace"
	}
	if c.Inherit {
		s += " (NewGroup option inherited by Group.New; a second group built from the same slices before)"
	}
	return s
}

func (c corsCfg) option() mux.Option {
	return mux.WithCORS(c.Origins, c.Headers, c.Exposed, c.MaxAge, c.Cred)
}

func corsConfigs() []corsCfg {
	var out []corsCfg
	for _, o := range [][]string{nil, {"*"}, {"https://a"}, {"https://a", "https://b"}, {"https://a", "*"}} {
		for _, h := range [][]string{nil, {"*"}, {"Content-Type"}, {"Content-Type", "X-Tok"}, {"*", "X-Tok"}, {"Content-Type", "*"}} {
			for _, e := range [][]string{nil, {"X-E"}} {
				for _, m := range []int{0, -1, 600} {
					for _, c := range []bool{false, true} {
						out = append(out, corsCfg{Origins: o, Headers: h, Exposed: e, MaxAge: m, Cred: c})
					}
				}
			}
		}
	}
	out = append(out, corsCfg{Origins: []string{"https://a"}, MaxAge: -2})
	// an allow-list without any of the CORS-safelisted names; the service's own origin as a list member
	out = append(out, corsCfg{Origins: []string{"https://a"}, Headers: []string{"X-Tok"}, Cred: true},
		corsCfg{Origins: []string{"http://h.example", "https://a"}, Headers: []string{"Content-Type"}, Exposed: []string{"X-E"}, Cred: true})
	// an origin that contains '*' without being "*": an ordinary list entry (never matched by a browser's Origin)
	out = append(out, corsCfg{Origins: []string{"https://*.a", "https://a"}, Headers: []string{"Content-Type"}},
		corsCfg{Origins: []string{"https://*.a"}, Cred: true})
	// lists that are not sorted and contain a duplicate: whatever normalisation mux does must not be visible
	out = append(out, corsCfg{Origins: []string{"https://b", "https://a"}, Headers: []string{"X-Tok", "Content-Type"}, Exposed: []string{"X-F", "X-E"}, MaxAge: 600, Cred: true},
		corsCfg{Origins: []string{"https://b", "https://a", "https://b"}, Headers: []string{"X-Tok", "Content-Type", "X-Tok"}, MaxAge: 600},
		corsCfg{Origins: []string{"https://b", "https://a", "https://b"}, Headers: []string{"Content-Type"}, Cred: true, Inherit: true})
	// an allow-list whose byte order differs from the order of its lower-cased form
	for _, o := range [][]string{{"*"}, {"https://a", "https://b"}} {
		for _, cr := range []bool{false, true} {
			if !(cr && o[0] == "*") {
				out = append(out, corsCfg{Origins: o, Headers: []string{"Content-Type", "X-CSRF-Token", "X-Client-Id"}, Exposed: []string{"X-E", "X-F"}, MaxAge: 600, Cred: cr})
			}
		}
	}
	// composed options: the last CORS option wins
	allow := corsCfg{Origins: []string{"*"}, Headers: []string{"*"}, MaxAge: 3600}
	listA := corsCfg{Origins: []string{"https://a"}, Headers: []string{"Content-Type"}, Cred: true}
	deny := corsCfg{}
	for _, via := range []bool{false, true} {
		for _, pair := range [][2]corsCfg{{allow, deny}, {deny, allow}, {allow, listA}, {listA, deny}, {listA, allow}} {
			c := pair[1]
			c.Before = []corsCfg{pair[0]}
			c.ViaGroup = via
			out = append(out, c)
		}
	}
	// inherited through a group: the same Option value (and the caller's slices) pass through option building repeatedly
	for _, c := range []corsCfg{listA, {Origins: []string{"https://a", "https://b"}, Headers: []string{"Content-Type", "X-Tok"}, Exposed: []string{"X-E"}, MaxAge: 600}} {
		c.Inherit = true
		out = append(out, c)
	}
	// the same decision table on a route table that was reached through a history, with WithTrace
	n := len(out)
	for i := 0; i < n; i += 7 {
		c := out[i]
		c.Table = 1
		out = append(out, c)
	}
	return out
}

type corsReq struct {
	Method, Path, Origin, ACRM, ACRH string
	HasOrigin, HasACRH               bool
	Origin2                          string // a second Origin field line (the request's origin is what Header.Get answers: the first)
	PreVary                          string // a Vary member that is on the response before the router sees the request
}

func (q corsReq) req() hv.Req {
	h := map[string]string{}
	if q.HasOrigin {
		h["Origin"] = q.Origin
	}
	if q.ACRM != "" {
		h["Access-Control-Request-Method"] = q.ACRM
	}
	var multi map[string][]string
	if q.HasACRH {
		// "\n" inside ACRH: the list is spread over several field lines (equivalent to one comma-separated line)
		lines := strings.Split(q.ACRH, "\n")
		h["Access-Control-Request-Headers"] = lines[0]
		if len(lines) > 1 {
			multi = map[string][]string{"Access-Control-Request-Headers": lines[1:]}
		}
	}
	if q.Origin2 != "" {
		if multi == nil {
			multi = map[string][]string{}
		}
		multi["Origin"] = []string{q.Origin2}
	}
	// every request names the service's own host: an Origin that happens to equal scheme://Host is an origin like any other
	return hv.Req{Method: q.Method, Path: q.Path, Host: "h.example", Header: h, Multi: multi, PreVary: q.PreVary}
}

func corsRequests(hostile bool, c corsCfg) []corsReq {
	var out []corsReq
	type org struct {
		v   string
		has bool
	}
	origins := []org{{"", false}, {"https://a", true}, {"https://b", true}, {"https://evil", true}, {"HTTPS://A", true}, {"https://a.evil", true}, {"*", true}, {"null", true}, {"http://h.example", true}}
	acrhs := []org{{"", false}, {"Content-Type", true}, {"content-type", true}, {"CONTENT-TYPE", true}, {" content-type , x-tok ", true}, {"X-Bad", true}, {"content-type,x-bad", true}}
	if hostile {
		acrhs = append(acrhs, org{",", true}, org{"", true}, org{"\xff", true})
	}
	// derived from the configured allow-list: every header alone in three spellings, all together,
	// and fragments (a proper prefix, an inner piece, a piece spanning two names of the joined list)
	seenH := map[string]bool{}
	for _, a := range acrhs {
		seenH[a.v] = true
	}
	addH := func(v string) {
		if v != "" && !seenH[v] {
			seenH[v] = true
			acrhs = append(acrhs, org{v, true})
		}
	}
	var named []string
	for _, h := range c.Headers {
		if h != "*" && h != "" {
			named = append(named, h)
			addH(h)
			addH(strings.ToLower(h))
			addH(strings.ToUpper(h))
			addH(h[:len(h)-1])
			addH(h[1:])
			addH(strings.Replace(h, "i", "\u0130", 1)) // LATIN CAPITAL I WITH DOT ABOVE lower-cases to a plain i but is no case variant of it
			addH(strings.Replace(h, "I", "\u0130", 1))
			addH(strings.Replace(strings.Replace(h, "k", "\u212a", 1), "K", "\u212a", 1)) // KELVIN SIGN
			if len(h) > 4 {
				addH(h[2 : len(h)-2])
			}
		}
	}
	addH("content-type,") // an empty list member (a trailing comma, an empty field line) asks for nothing
	addH("Content-Type\n")
	addH(",content-type")
	addH("\nX-Bad") // an empty first field line, the foreign name on the second
	addH(" \nX-Bad\n")
	addH("Content-Type\nX-Bad") // the list spread over two field lines: an allowed name first, a foreign one on the second line
	addH("X-Bad\ncontent-type")
	// the CORS-safelisted request headers are ordinary names to this check: allowed only when configured
	addH("Accept")
	addH("accept-language")
	addH("Content-Language")
	// long lists: every member counts, the 33rd like the first
	addH(strings.Repeat("content-type,", 33) + "x-bad")
	addH(strings.Repeat(",", 40) + "x-bad")
	addH(strings.Repeat("content-type\n", 20) + "x-bad\n" + strings.Repeat("content-type\n", 20))
	addH("content-type\t") // optional white space around a list member is SP or HTAB
	addH("\tContent-Type")
	if len(named) > 1 {
		addH(strings.Join(named, "\n")) // every allowed name on a line of its own
		addH(strings.ToLower(strings.Join(named, ", ")))
		j := strings.Join(named, ",")
		k := len(named[0])
		addH(j[k-1 : k+2]) // e.g. "e,X": spans two names
		addH(named[len(named)-1] + "," + named[0])
		addH(strings.Join(named, ",\t"))
		addH(strings.Join(named, "\t, "))
	}
	for _, m := range []string{"GET", "HEAD", "POST", "PUT", "OPTIONS", "TRACE", "", "BOGUS"} { // "" and BOGUS: served by no route, always 405/404
		for _, p := range []string{"/r", "/w", "/p", "/none", "*", "" /* absolute-form target without a path */, "/boom"} {
			for _, o := range origins {
				for _, am := range []string{"", "GET", "POST", "PUT", "get", "HEAD", "OPTIONS", "DELETE"} {
					for _, ah := range acrhs {
						out = append(out, corsReq{Method: m, Path: p, Origin: o.v, HasOrigin: o.has, ACRM: am, ACRH: ah.v, HasACRH: ah.has})
					}
				}
			}
		}
	}
	// a front handler has already put a Vary member on the response whose text contains that of the members CORS adds
	for _, m := range []string{"GET", "OPTIONS"} {
		for _, am := range []string{"", "GET"} {
			for _, pv := range []string{"X-Original-Host", "Accept-Encoding, X-Origin", "access-control-request-method-override"} {
				out = append(out, corsReq{Method: m, Path: "/r", Origin: "https://a", HasOrigin: true, ACRM: am, PreVary: pv})
			}
		}
	}
	// two Origin field lines: the first one is the request's origin, whatever the second says
	for _, m := range []string{"GET", "OPTIONS"} {
		for _, am := range []string{"", "GET"} {
			for _, pair := range [][2]string{{"https://evil", "https://a"}, {"https://a", "https://evil"}, {"https://evil", "*"}} {
				out = append(out, corsReq{Method: m, Path: "/r", Origin: pair[0], HasOrigin: true, Origin2: pair[1], ACRM: am})
			}
		}
	}
	return out
}

// acrhList is the requested-header list as one comma-separated value (several field lines are one list).
func acrhList(v string) string { return strings.ReplaceAll(v, "\n", ",") }

func tokenSet(s string) string {
	var t []string
	for _, x := range strings.Split(s, ",") {
		x = strings.ToLower(strings.TrimSpace(x))
		if x != "" {
			t = append(t, x)
		}
	}
	sort.Strings(t)
	return strings.Join(t, ",")
}

// tokenSetExact is tokenSet without case folding.
func tokenSetExact(s string) string {
	var t []string
	for _, x := range strings.Split(s, ",") {
		if x = strings.TrimSpace(x); x != "" {
			t = append(t, x)
		}
	}
	sort.Strings(t)
	return strings.Join(t, ",")
}

func contains(l []string, s string) bool {
	for _, x := range l {
		if x == s {
			return true
		}
	}
	return false
}

func varyHas(h http.Header, name string) bool {
	for _, v := range h.Values("Vary") {
		for _, t := range strings.Split(v, ",") {
			if strings.EqualFold(strings.TrimSpace(t), name) {
				return true
			}
		}
	}
	return false
}

type corsItem struct {
	Prop string  `json:"prop"`
	Cfg  corsCfg `json:"cfg"`
	Only string  `json:"only,omitempty"`
}

func corsRouter(c corsCfg) (r *Router, pv any, bad bool) {
	pv, bad = Guard(func() {
		opts := []mux.Option{mux.WithStatusRecovery(500)}
		if c.Table == 1 {
			opts = append(opts, mux.WithTrace(hv.TraceH()))
		}
		if c.Inherit {
			opt := c.option()
			newGroup(opt).New("first", nil) // an earlier user of the same Option value / slices
			r = newGroup(append([]mux.Option{opt}, opts...)...).New("r", nil)
		} else if c.ViaGroup {
			var gopts []mux.Option
			for _, b := range c.Before {
				gopts = append(gopts, b.option())
			}
			r = newGroup(append(gopts, opts...)...).New("r", nil, c.option())
		} else {
			for _, b := range c.Before {
				opts = append(opts, b.option())
			}
			r = NewRouter(RouterCfg{}, append(opts, c.option())...)
		}
		r.Handle("/boom", hv.Route("hb", hv.Step{Op: "Panic"}), nil, "GET") // answered by the recovery option: still a served method
		if c.Table == 0 {
			r.Handle("/r", hv.Route("hr"), nil, "GET")
			r.Handle("/w", hv.Route("hw"), nil, "GET", "POST")
			r.Handle("/p", hv.Route("hp"), nil, "POST") // no GET: HEAD is not served here
			return
		}
		// same live table, reached the long way round, with requests in between (whatever a request leaves behind
		// must not outlive the table change that follows it)
		prime := func(method, path, acrm string) {
			for _, origin := range []string{"https://a", "https://evil"} {
				hv.Serve(r, hv.Req{Method: method, Path: path, Header: map[string]string{"Origin": origin, "Access-Control-Request-Method": acrm, "Access-Control-Request-Headers": "content-type"}})
			}
		}
		r.Handle("/r", hv.Route("hr"), nil, "GET")
		r.Handle("/r", hv.Route("hr2"), nil, "POST")
		prime("OPTIONS", "/r", "POST")
		prime("POST", "/r", "")
		r.Handle("/w", hv.Route("hw"), nil, "GET")
		r.Handle("/wx", hv.Route("hwx"), nil, "PUT") // splits the node of /w
		r.Handle("/w", hv.Route("hw"), nil, "POST")
		r.Remove("/r", "POST")
		r.Remove("/r", "DELETE") // never registered
		r.Remove("/wx")
		r.Handle("/none", hv.Route("hn"), nil, "GET")
		r.Remove("/none")
		r.Handle("/p", hv.Route("hp0"), nil, "GET", "POST")
		prime("OPTIONS", "/p", "GET")
		prime("OPTIONS", "/p", "HEAD")
		r.Remove("/p", "GET")
	})
	return
}

func corsJob(raw json.RawMessage) (any, error) {
	var it corsItem
	if err := json.Unmarshal(raw, &it); err != nil {
		return nil, err
	}
	out := &simpleOut{}
	outc := map[string]struct{}{}
	// the router gets its own copy of the configuration: the slices handed to WithCORS belong to mux's caller,
	// and an implementation that edits them must not be able to edit the oracle's idea of what was configured
	var handed corsCfg
	json.Unmarshal(mustJSON(it.Cfg), &handed)
	// ... and the slices it gets are views of longer caller-owned lists (one more element behind each): whatever
	// mux does with its configuration, the caller's lists keep their content and order
	guard := func(s []string) []string {
		if s == nil {
			return nil
		}
		return append(append(make([]string, 0, len(s)+1), s...), "caller-owned-tail")[:len(s)]
	}
	handed.Origins, handed.Headers, handed.Exposed = guard(handed.Origins), guard(handed.Headers), guard(handed.Exposed)
	c := it.Cfg
	rep := func(clause, class string, q corsReq, obs, exp string) {
		label := q.req().String()
		if it.Only != "" && it.Only != label {
			return
		}
		out.Viols = append(out.Viols, explore.Violation{Property: it.Prop, Clause: clause, Class: class, Config: c.String(), Probe: label, Observed: obs, Expected: exp,
			Replay: explore.ItemReplay("c11/config", corsItem{Prop: it.Prop, Cfg: c, Only: label})})
	}
	anyOrigin := contains(c.Origins, "*")
	invalid := (anyOrigin && c.Cred) || c.MaxAge < -1
	r, pv, bad := corsRouter(handed)
	out.Evals++
	for _, pair := range [][2][]string{{handed.Origins, c.Origins}, {handed.Headers, c.Headers}, {handed.Exposed, c.Exposed}} {
		if pair[0] == nil {
			continue
		}
		if got, want := strings.Join(pair[0][:len(pair[0])+1], " | "), strings.Join(append(append([]string{}, pair[1]...), "caller-owned-tail"), " | "); got != want {
			rep(it.Prop+".config", "caller-slices-modified", corsReq{}, "after NewRouter the list handed to WithCORS reads: "+got, "as handed over: "+want)
		}
	}
	if invalid {
		if !bad {
			rep(it.Prop+".config", "invalid-config-accepted", corsReq{}, "NewRouter returned normally", "panic with an error value ('*' with credentials, or maxAge < -1)")
		} else if PanicClass(pv) != "error" {
			rep(it.Prop+".config", "config-panic-not-error", corsReq{}, fmt.Sprintf("panic(%T)", pv), "panic with an error value")
		}
		return out, nil
	}
	if bad {
		rep(it.Prop+".config", "valid-config-rejected", corsReq{}, fmt.Sprintf("panic: %v", pv), "router created")
		return out, nil
	}
	t := ref.NewTable(nil, c.Table == 1)
	t.Handle("/r", "hr", nil, "GET")
	t.Handle("/w", "hw", nil, "GET", "POST")
	t.Handle("/p", "hp", nil, "POST")
	t.Handle("/boom", "hb", nil, "GET")
	anyHeaders := contains(c.Headers, "*")
	for _, q := range corsRequests(it.Prop == "C05", c) {
		o := hv.Serve(r, q.req())
		out.Evals++
		if it.Prop == "C05" && o.Status == 500 && !(q.Path == "/boom" && (q.Method == "GET" || q.Method == "HEAD")) {
			// the router is built with WithStatusRecovery(500) and only GET /boom has a handler that panics: any other 500
			// is a fault in the router's own code that the recovery option has hidden
			rep(it.Prop+".no-panic", "panic:cors:contained-by-recovery", q, "status 500 (the recovery option answered)", "no fault: only GET /boom panics")
		}
		if o.Paniced {
			rep(it.Prop+".no-panic", "panic:cors:"+shortPanic(o.Panic), q, fmt.Sprintf("panic: %v", o.Panic), "no panic")
			continue
		}
		if it.Prop == "C05" {
			continue
		}
		h := o.Header
		acao, hasACAO := h.Get("Access-Control-Allow-Origin"), len(h.Values("Access-Control-Allow-Origin")) > 0
		cred := h.Get("Access-Control-Allow-Credentials")
		outc[fmt.Sprintf("%d/acao=%v/cred=%s/pf=%v/methods=%v/maxage=%s/vary=%d", o.Status, hasACAO, cred, q.Method == "OPTIONS" && q.ACRM != "", h.Get("Access-Control-Allow-Methods") != "", h.Get("Access-Control-Max-Age"), len(h.Values("Vary")))] = struct{}{}
		listed := q.HasOrigin && contains(c.Origins, q.Origin) && q.Origin != "*"
		route := t.Routes[q.Path]
		served := route != nil && o.Status != 404 && o.Status != 405 && contains(t.Allow(q.Path), q.Method)
		if it.Prop == "C12" && q.Method == "OPTIONS" && route != nil && !o.Paniced && o.Kind != "OPT" {
			// CORS adds headers; the request itself still goes to the route's automatic OPTIONS handler (and the
			// middlewares around it), preflight or not, granted or not
			rep("C12.options-handler", "options-not-answered-by-its-handler", q, fmt.Sprintf("status %d, handler kind %q (%s)", o.Status, o.Kind, o.HID), "the automatic OPTIONS handler of "+q.Path)
		}
		if q.Path == "*" && q.Method == "OPTIONS" && o.Status == 200 {
			served = true // the server-wide OPTIONS is an ordinary served request, never a preflight
		}
		preflight := q.Method == "OPTIONS" && q.ACRM != "" && q.Path != "*"
		// requested headers
		reqHeadersOK := true
		if q.HasACRH && !anyHeaders {
			for _, x := range strings.Split(acrhList(q.ACRH), ",") {
				x = strings.TrimSpace(x)
				if x == "" {
					continue
				}
				okh := false
				for _, a := range c.Headers {
					if strings.EqualFold(a, x) {
						okh = true
					}
				}
				if !okh {
					reqHeadersOK = false
				}
			}
		}
		if it.Prop == "C11" {
			switch {
			case hasACAO && len(c.Origins) == 0:
				rep("C11.deny", "acao-without-configured-origins", q, "Access-Control-Allow-Origin: "+acao, "absent")
			case hasACAO && (o.Status == 404 || o.Status == 405):
				rep("C11.deny", fmt.Sprintf("acao-on-%d", o.Status), q, "Access-Control-Allow-Origin: "+acao, "absent on 404/405")
			case hasACAO && acao == "*" && !anyOrigin:
				rep("C11.origin", "acao-star-not-configured", q, "Access-Control-Allow-Origin: *", "absent or a listed origin")
			case hasACAO && acao != "*" && !(listed && acao == q.Origin):
				rep("C11.origin", "acao-unlisted", q, "Access-Control-Allow-Origin: "+acao, "absent ('"+q.Origin+"' is not in the configured list verbatim)")
			case cred != "" && !(cred == "true" && hasACAO && listed && acao == q.Origin):
				rep("C11.credentials", "credentials-without-echo", q, "Access-Control-Allow-Credentials: "+cred+" with Access-Control-Allow-Origin: "+acao, "credentials only with an echoed, listed origin")
			case hasACAO && preflight && q.Path == "":
				rep("C11.preflight", "acao-on-preflight-for-unserved-method", q, "Access-Control-Allow-Origin: "+acao, "absent: the empty path is no route, nothing is served there but OPTIONS itself")
			case hasACAO && preflight && route != nil && !contains(t.Allow(q.Path), q.ACRM):
				rep("C11.preflight", "acao-on-preflight-for-unserved-method", q, "Access-Control-Allow-Origin: "+acao, "absent: "+q.Path+" does not serve "+q.ACRM)
			case hasACAO && preflight && !reqHeadersOK:
				rep("C11.preflight", "acao-on-preflight-with-disallowed-header", q, "Access-Control-Allow-Origin: "+acao, "absent: requested headers "+q.ACRH+" not all in "+fmt.Sprint(c.Headers))
			}
			continue
		}
		// ---- C12 ----
		pfHeaders := []string{"Access-Control-Allow-Methods", "Access-Control-Allow-Headers", "Access-Control-Max-Age"}
		if !preflight {
			for _, n := range pfHeaders {
				if len(h.Values(n)) > 0 {
					rep("C12.preflight-only", "preflight-header-on-simple", q, n+": "+h.Get(n), "absent on a request that is not a preflight")
				}
			}
		}
		allowedOrigin := len(c.Origins) > 0 && (anyOrigin || listed)
		if !allowedOrigin || !served {
			continue
		}
		if q.HasACRH && strings.Trim(acrhList(q.ACRH), ", ") == "" {
			continue
		}
		grant := !preflight || (contains(t.Allow(q.Path), q.ACRM) && reqHeadersOK)
		if !grant {
			continue
		}
		wantOrigin := "*"
		if !anyOrigin {
			wantOrigin = q.Origin
		}
		if !hasACAO || acao != wantOrigin {
			class := "acao-missing"
			if preflight && q.HasACRH && !anyHeaders {
				class = "requested-header-case"
				for _, x := range strings.Split(acrhList(q.ACRH), ",") {
					if strings.TrimSpace(x) == "" {
						class = "requested-list-empty-member"
					}
				}
			}
			rep("C12.origin", class, q, "Access-Control-Allow-Origin: "+acao, wantOrigin)
			continue
		}
		wantCred := ""
		if c.Cred {
			wantCred = "true"
		}
		if cred != wantCred {
			rep("C12.credentials", "credentials-mismatch", q, "Access-Control-Allow-Credentials: "+cred, wantCred)
		}
		if got, want := tokenSetExact(h.Get("Access-Control-Expose-Headers")), tokenSetExact(strings.Join(c.Exposed, ",")); got != want {
			rep("C12.expose", "expose-headers-mismatch", q, got, want)
		}
		if !anyOrigin && !varyHas(h, "Origin") {
			rep("C12.vary", "vary-missing:Origin", q, "Vary: "+strings.Join(h.Values("Vary"), ", "), "Vary names Origin (the granted origin was picked from a list)")
		}
		if preflight {
			if got, want := tokenSet(h.Get("Access-Control-Allow-Methods")), tokenSet(strings.Join(t.Allow(q.Path), ",")); got != want {
				rep("C12.preflight", "allow-methods-mismatch", q, got, want)
			}
			gotAH := tokenSet(h.Get("Access-Control-Allow-Headers"))
			switch {
			case anyHeaders:
				if !strings.Contains(","+gotAH+",", ",*,") {
					rep("C12.preflight", "allow-headers-mismatch", q, gotAH, "contains *")
				}
			default:
				if want := tokenSet(strings.Join(c.Headers, ",")); gotAH != want {
					rep("C12.preflight", "allow-headers-mismatch", q, gotAH, want)
				} else if got, want := tokenSetExact(h.Get("Access-Control-Allow-Headers")), tokenSetExact(strings.Join(c.Headers, ",")); got != want {
					rep("C12.preflight", "allow-headers-respelled", q, got, want+" (exactly as configured)")
				}
			}
			wantAge := ""
			if c.MaxAge != 0 {
				wantAge = strconv.Itoa(c.MaxAge)
			}
			if got := h.Get("Access-Control-Max-Age"); got != wantAge {
				rep("C12.preflight", "max-age-mismatch", q, got, wantAge)
			}
			if !varyHas(h, "Access-Control-Request-Method") {
				rep("C12.vary", "vary-missing:Access-Control-Request-Method", q, "Vary: "+strings.Join(h.Values("Vary"), ", "), "Vary names Access-Control-Request-Method")
			}
			if len(h.Values("Access-Control-Allow-Headers")) > 0 && !varyHas(h, "Access-Control-Request-Headers") {
				rep("C12.vary", "vary-missing:Access-Control-Request-Headers", q, "Vary: "+strings.Join(h.Values("Vary"), ", "), "Vary names Access-Control-Request-Headers (an allow-list is sent)")
			}
		}
	}
	out.Viols = smallestPerSig(out.Viols)
	out.Outcomes = keys(outc)
	out.Sample = map[string]any{"config": c.String(), "requests": out.Evals}
	return out, nil
}

func runCORS(rc *explore.RunCtx, prop string) {
	rc.Assume = append(rc.Assume,
		"configurations: origins {none, [*], [https://a], [https://a,https://b], [https://a,*]} x allowHeaders {none, [*], [Content-Type], [Content-Type,X-Tok]} x exposed {none,[X-E]} x maxAge {0,-1,600} x credentials (240, invalid combinations must be rejected by NewRouter with an error) plus maxAge=-2",
		"requests: method {GET HEAD POST PUT OPTIONS TRACE} x path {/r[GET], /w[GET,POST], /none, *} x Origin {absent, listed, other listed, unlisted, upper-cased, suffix-extended, *, null} x Access-Control-Request-Method {absent, GET, POST, PUT, get} x Access-Control-Request-Headers {absent, three spellings of Content-Type, spaced list, unlisted, mixed list}: the full product, every response header block as sent",
		"header names are compared case-insensitively, origins verbatim; Vary is read across all its values")
	var items []corsItem
	for _, c := range corsConfigs() {
		items = append(items, corsItem{Prop: prop, Cfg: c})
	}
	explore.ParMap(rc, "c11/config", items, func(i int, in corsItem, o simpleOut) { mergeSimple(rc, o, "dispatches") })
}

func init() {
	explore.RegisterJob("c11/config", corsJob)
	explore.Register(&explore.Check{ID: "C11", Run: func(rc *explore.RunCtx) { runCORS(rc, "C11") }})
	explore.Register(&explore.Check{ID: "C12", Run: func(rc *explore.RunCtx) { runCORS(rc, "C12") }})
}
