package props

import (
	"bytes"
	"context"
	"encoding/json"
	"errors"
	"fmt"
	"io"
	"log"
	"log/slog"
	"net/http"
	"strconv"
	"strings"

	"github.com/issue9/mux/v9"

	"verifharness/explore"
	"verifharness/hv"
)

// ---- C16: configured recovery contains every panic ----

type custom struct{ A int }

// nilErr: the classic typed nil - an error value whose Error method faults when somebody calls it unguarded
type nilErr struct{ msg string }

func (e *nilErr) Error() string { return e.msg }

var typedNilErr *nilErr

var (
	errVal      = errors.New("e")
	errCanceled = fmt.Errorf("load user: %w", context.Canceled)
	errDeadline = fmt.Errorf("load user: %w", context.DeadlineExceeded)
	ptrVal      = &custom{7}
	typedNil    *custom
)

func panicValue(i int) any {
	switch i {
	case 0:
		return "s 100%d of %s%" // text with format verbs: it must come out as it went in
	case 1:
		return errVal
	case 2:
		return 42
	case 3:
		return runtimeErr()
	case 4:
		return custom{3}
	case 5:
		return ptrVal
	case 6:
		return typedNil
	case 7:
		return http.ErrAbortHandler // the sentinel net/http itself treats specially
	case 8:
		return io.EOF
	case 9:
		return typedNilErr
	case 10:
		return errCanceled // errors a handler typically gives up with: they are panic values like any other
	case 11:
		return errDeadline
	}
	return nil
}

func runtimeErr() (e any) {
	defer func() { e = recover() }()
	var m map[string]int
	m["x"] = 1
	return nil
}

func sameValue(a, b any) bool {
	if ea, ok := a.(interface{ RuntimeError() }); ok {
		eb, ok2 := b.(interface{ RuntimeError() })
		return ok2 && fmt.Sprint(ea) == fmt.Sprint(eb) && fmt.Sprintf("%T", a) == fmt.Sprintf("%T", b)
	}
	defer func() { recover() }()
	return a == b
}

type c16Event struct {
	Name string `json:"name"`
	Req  hv.Req `json:"req"`
	Site string `json:"site,omitempty"` // "" = normal request
	Val  int    `json:"val"`
	Nest bool   `json:"nest,omitempty"`
}

func c16Events(values []int) []c16Event {
	host := "a.com"
	ev := []c16Event{
		{Name: "normal GET /x", Req: hv.Req{Method: "GET", Path: "/x", Host: host}},
		{Name: "normal GET /u/7", Req: hv.Req{Method: "GET", Path: "/u/7", Host: host}},
		{Name: "nested GET /n/1 -> GET /u/2", Req: hv.Req{Method: "GET", Path: "/n/1", Host: host}, Nest: true},
	}
	sites := []struct {
		name string
		req  hv.Req
		site string
	}{
		{"GET handler", hv.Req{Method: "GET", Path: "/x", Host: host}, "h"},
		{"GET handler, client already gone", hv.Req{Method: "GET", Path: "/x", Host: host, Gone: true}, "h"},
		{"POST handler", hv.Req{Method: "POST", Path: "/x", Host: host}, "h"},
		{"HEAD via GET handler", hv.Req{Method: "HEAD", Path: "/x", Host: host}, "h"},
		{"handler with params", hv.Req{Method: "GET", Path: "/u/9", Host: host}, "h"},
		{"Use middleware before next", hv.Req{Method: "GET", Path: "/p/y", Host: host}, "mw:U:pre"},
		{"Use middleware after next", hv.Req{Method: "GET", Path: "/p/y", Host: host}, "mw:U:post"},
		{"prefix middleware before next", hv.Req{Method: "GET", Path: "/p/y", Host: host}, "mw:D:pre"},
		{"prefix middleware after next", hv.Req{Method: "GET", Path: "/p/y", Host: host}, "mw:D:post"},
		{"route middleware before next", hv.Req{Method: "GET", Path: "/p/y", Host: host}, "mw:M1:pre"},
		{"route middleware after next", hv.Req{Method: "GET", Path: "/p/y", Host: host}, "mw:M1:post"},
		{"404 handler", hv.Req{Method: "GET", Path: "/nowhere/at/all", Host: host}, "h"},
		{"Use middleware around 404", hv.Req{Method: "GET", Path: "/nowhere/at/all", Host: host}, "mw:U:pre"},
		{"405 handler", hv.Req{Method: "PUT", Path: "/x", Host: host}, "h"},
		{"OPTIONS handler", hv.Req{Method: "OPTIONS", Path: "/x", Host: host}, "h"},
		{"TRACE handler", hv.Req{Method: "TRACE", Path: "/x", Host: host}, "h"},
		{"OPTIONS * handler", hv.Req{Method: "OPTIONS", Path: "*", Host: host}, "h"},
		{"group not-found handler", hv.Req{Method: "GET", Path: "/x", Host: "nomatch.com"}, "h"},
		{"group Use middleware around not-found", hv.Req{Method: "GET", Path: "/x", Host: "nomatch.com"}, "mw:G:pre"},
		// user code that runs while the route is being looked up (under the tree lock when WithLock is set)
		{"interceptor during matching", hv.Req{Method: "GET", Path: "/i/12", Host: host}, "interceptor"},
	}
	for _, s := range sites {
		for _, v := range values {
			ev = append(ev, c16Event{Name: fmt.Sprintf("panic(%T) in %s", panicValue(v), s.name), Req: s.req, Site: s.site, Val: v})
		}
	}
	return ev
}

type c16Item struct {
	Kind   string `json:"kind"`
	First  int    `json:"first"`
	Len    int    `json:"len"`
	Values []int  `json:"values"`
	Only   []int  `json:"only,omitempty"`
}

type recLog struct{ calls []any }

// c16System builds the long-lived instance. It returns the server, whether a
// recovery is in force for router-level and group-level panics, and the logs.
func c16System(kind string) (srv http.Handler, routerRec, groupRec string, rl, gl *recLog, router *Router) {
	rl, gl = &recLog{}, &recLog{}
	recOpt := func(l *recLog) mux.Option {
		return mux.WithRecovery(func(w http.ResponseWriter, v any) { l.calls = append(l.calls, v); w.WriteHeader(500) })
	}
	populate := func(r *Router) {
		r.Handle("/i/{n:boom}", hv.Route("hi"), nil, "GET")
		r.Use(hv.MW{Name: "U"})
		r.Handle("/x", hv.Route("hx"), nil, "GET", "POST")
		r.Handle("/u/{id}", hv.Route("hu"), nil, "GET")
		r.Handle("/n/{id}", hv.Route("hn", hv.Step{Op: "Nest"}), nil, "GET")
		r.Prefix("/p", hv.MW{Name: "D"}).Handle("/y", hv.Route("hy"), mws(nil, []string{"M1"}), "GET")
	}
	// every router also gets an interceptor that panics on demand and, for the "+lock" kinds, WithLock(true)
	lock := strings.HasSuffix(kind, "+lock")
	kind = strings.TrimSuffix(kind, "+lock")
	base := []mux.Option{mux.WithTrace(hv.TraceH()), mux.WithLock(lock), mux.WithInterceptor(func(s string) bool {
		if c16InterceptorPanic != nil {
			v := c16InterceptorPanic
			panic(v)
		}
		return s != ""
	}, "boom")}
	with := func(extra ...mux.Option) []mux.Option { return append(append([]mux.Option{}, base...), extra...) }
	switch kind {
	case "router-none":
		router = NewRouter(RouterCfg{Name: "r1"}, with()...)
		populate(router)
		return router, "none", "n/a", rl, gl, router
	case "router-rec":
		router = NewRouter(RouterCfg{Name: "r1"}, with(recOpt(rl))...)
		populate(router)
		return router, "func", "n/a", rl, gl, router
	case "router-status":
		router = NewRouter(RouterCfg{Name: "r1"}, with(mux.WithStatusRecovery(500))...)
		populate(router)
		return router, "status", "n/a", rl, gl, router
	case "router-rec-then-nil":
		// the last option wins: WithRecovery(nil) switches recovery off again
		router = NewRouter(RouterCfg{Name: "r1"}, with(recOpt(rl), mux.WithRecovery(nil))...)
		populate(router)
		return router, "none", "n/a", rl, gl, router
	case "router-log", "router-slog", "router-write":
		// the built-in reporting options: status 500 and a report that starts with the panic value as printed by fmt
		c16Report.Reset()
		var o mux.Option
		switch kind {
		case "router-log":
			o = mux.WithLogRecovery(500, log.New(&c16Report, "", 0))
		case "router-slog":
			o = mux.WithSLogRecovery(500, slog.New(slog.NewTextHandler(&c16Report, nil)))
		default:
			o = mux.WithWriteRecovery(500, &c16Report)
		}
		router = NewRouter(RouterCfg{Name: "r1"}, with(o)...)
		populate(router)
		return router, "report:" + kind, "n/a", rl, gl, router
	}
	var g *mux.Group[*hv.H]
	host := mux.NewHosts(false, "a.com")
	switch kind {
	case "group-none":
		g = newGroup(with()...)
		g.Use(hv.MW{Name: "G"})
		router = g.New("r1", host)
		routerRec, groupRec = "none", "none"
	case "group-rec-inherited":
		g = newGroup(with(recOpt(gl))...)
		g.Use(hv.MW{Name: "G"})
		router = g.New("r1", host)
		rl = gl // the router inherits the group's function
		routerRec, groupRec = "func", "func"
	case "group-status-inherited":
		g = newGroup(with(mux.WithStatusRecovery(500))...)
		g.Use(hv.MW{Name: "G"})
		router = g.New("r1", host)
		routerRec, groupRec = "status", "status"
	case "group-rec-new-extra-option":
		// New gets an unrelated option of its own: the group's recovery must still be inherited
		g = newGroup(recOpt(gl))
		g.Use(hv.MW{Name: "G"})
		router = g.New("r1", host, with(mux.WithURLDomain("https://h"))...)
		rl = gl
		routerRec, groupRec = "func", "func"
	case "group-rec-new-nil":
		// Group.New with WithRecovery(nil): this router has no recovery although the group has
		g = newGroup(with(recOpt(gl))...)
		g.Use(hv.MW{Name: "G"})
		router = g.New("r1", host, mux.WithRecovery(nil))
		routerRec, groupRec = "none", "func"
	case "group-none-sibling-rec":
		// an earlier Group.New brought its own recovery option: that is the sibling's business only
		g = newGroup(with()...)
		g.Use(hv.MW{Name: "G"})
		g.New("r0", mux.NewHosts(false, "other.com"), recOpt(&recLog{}))
		router = g.New("r1", host)
		routerRec, groupRec = "none", "none"
	case "group-rec-sibling-nil":
		g = newGroup(with(recOpt(gl))...)
		g.Use(hv.MW{Name: "G"})
		g.New("r0", mux.NewHosts(false, "other.com"), mux.WithRecovery(nil))
		router = g.New("r1", host)
		rl = gl
		routerRec, groupRec = "func", "func"
	case "group-rec-new-overrides":
		g = newGroup(with(recOpt(gl))...)
		g.Use(hv.MW{Name: "G"})
		router = g.New("r1", host, recOpt(rl))
		routerRec, groupRec = "func", "func"
	case "group-rec-added-own":
		g = newGroup(with(recOpt(gl))...)
		g.Use(hv.MW{Name: "G"})
		router = NewRouter(RouterCfg{Name: "r1"}, with(recOpt(rl))...)
		g.Add(host, router)
		routerRec, groupRec = "func", "func"
	case "group-none-added-rec":
		g = newGroup(with()...)
		g.Use(hv.MW{Name: "G"})
		router = NewRouter(RouterCfg{Name: "r1"}, with(recOpt(rl))...)
		g.Add(host, router)
		routerRec, groupRec = "func", "none"
	case "group-rec-added-none":
		g = newGroup(with(recOpt(gl))...)
		g.Use(hv.MW{Name: "G"})
		router = NewRouter(RouterCfg{Name: "r1"}, with()...)
		g.Add(host, router)
		routerRec, groupRec = "none", "func"
	}
	populate(router)
	return g, routerRec, groupRec, rl, gl, router
}

// c16Report receives what the built-in reporting recovery options write.
var c16Report bytes.Buffer

// c16InterceptorPanic, when non-nil, makes the "boom" interceptor panic with that value.
var c16InterceptorPanic any

var c16Kinds = []string{"group-none-sibling-rec", "group-rec-sibling-nil", "router-rec-then-nil", "group-rec-new-nil", "router-log", "router-slog", "router-write", "router-rec+lock", "group-rec-inherited+lock", "router-none+lock", "group-rec-new-extra-option", "router-none", "router-rec", "router-status", "group-none", "group-rec-inherited", "group-status-inherited", "group-rec-new-overrides", "group-rec-added-own", "group-none-added-rec", "group-rec-added-none"}

// c16RecFaultJob: a recovery function that gives up once (it panics with http.ErrAbortHandler, the way net/http asks
// a handler to abort the connection) must not cost the router anything: the next handler panic is delivered to it
// and the request returns. It runs as a work item so that a router that never answers is caught by the watchdog.
func c16RecFaultJob(raw json.RawMessage) (any, error) {
	out := &simpleOut{}
	for _, lock := range []bool{false, true} {
		var got []any
		abortNext := true
		rec := func(w http.ResponseWriter, v any) {
			got = append(got, v)
			if abortNext {
				abortNext = false
				panic(http.ErrAbortHandler)
			}
			w.WriteHeader(500)
		}
		r := NewRouter(RouterCfg{Lock: lock}, mux.WithRecovery(rec))
		r.Handle("/p", hv.Route("hp"), nil, "GET")
		hv.Serve(r, hv.Req{Method: "GET", Path: "/p", Fault: &hv.Fault{Site: "h", Val: "boom"}})
		ok := hv.Serve(r, hv.Req{Method: "GET", Path: "/p"})
		o := hv.Serve(r, hv.Req{Method: "GET", Path: "/p", Fault: &hv.Fault{Site: "h", Val: "boom2"}})
		out.Evals += 3
		if ok.Paniced || ok.Status != 200 || o.Paniced || o.Status != 500 || len(got) != 2 || got[1] != "boom2" {
			out.Viols = append(out.Viols, explore.Violation{Property: "C16", Clause: "C16.contained", Class: "not-contained-after-recovery-function-gave-up", Config: fmt.Sprintf("NewRouter(WithRecovery(f), lock=%v); f panics with http.ErrAbortHandler on its first call", lock),
				Probe: "GET /p (handler panics, f aborts) ; GET /p ; GET /p (handler panics with boom2)", Observed: fmt.Sprintf("second: %s ; third: %s ; values f saw: %v", ok.Summary(), o.Summary(), got),
				Expected: "second: 200 ; third: contained, f called with boom2, status 500", Replay: explore.ItemReplay("c16/recfault", 0)})
		}
	}
	return out, nil
}

func c16Job(raw json.RawMessage) (any, error) {
	var it c16Item
	if err := json.Unmarshal(raw, &it); err != nil {
		return nil, err
	}
	out := &simpleOut{}
	outc := map[string]struct{}{}
	events := c16Events(it.Values)
	isGroup := strings.HasPrefix(it.Kind, "group")
	runSeq := func(seq []int) {
		drainPool() // leftovers of earlier sequences (e.g. a context released twice) must not leak into this one
		srv, routerRec, groupRec, rl, gl, _ := c16System(it.Kind)
		var hist []string
		rep := func(class, probe, obs, exp string) {
			n := it
			n.Only = append([]int{}, seq...)
			out.Viols = append(out.Viols, explore.Violation{Property: "C16", Clause: "C16.recovery", Class: class, Config: it.Kind, History: append([]string{}, hist...), Probe: probe, Observed: obs, Expected: exp,
				Replay: explore.ItemReplay("c16/seq", n)})
		}
		hv.Nested = func() {
			in := hv.Serve(srv, hv.Req{Method: "GET", Path: "/u/2", Host: "a.com"})
			if in.Paniced || in.CoreID != "hu" || hv.ParamsString(in.Params) != `{id="2"}` {
				rep("later-request-broken", "inner request GET /u/2 issued from inside a handler", in.Summary(), `hu with {id="2"}`)
			}
		}
		defer func() { hv.Nested = nil }()
		for _, ei := range seq {
			e := events[ei]
			hist = append(hist, e.Name)
			if !isGroup && (strings.Contains(e.Name, "group")) {
				continue // no group: event not applicable
			}
			q := e.Req
			var val any
			if e.Site != "" {
				val = panicValue(e.Val)
				q.Fault = &hv.Fault{Site: e.Site, Val: val}
			}
			r0, g0 := len(rl.calls), len(gl.calls)
			if e.Site == "interceptor" {
				c16InterceptorPanic = val
			}
			lockBase := heldLocks() // process-wide counter: compare with its value before the request
			c16Report.Reset()
			o := hv.Serve(srv, q)
			c16InterceptorPanic = nil
			out.Evals++
			if n := heldLocks() - lockBase; n != 0 {
				rep("lock-leaked", e.Name+": "+q.String(), fmt.Sprintf("%d router lock(s) still held after ServeHTTP returned", n), "every lock released (a later Handle/Remove would block forever)")
				return
			}
			groupLevel := isGroup && q.Host == "nomatch.com"
			rec := routerRec
			log := rl
			if groupLevel {
				rec, log = groupRec, gl
			}
			outc[fmt.Sprintf("%s/%s/%v/%d", it.Kind, rec, o.Paniced, o.Status)] = struct{}{}
			if e.Site == "" {
				// normal request: must be served normally whatever happened before
				want := map[string]string{"/x": "hx", "/u/7": "hu", "/n/1": "hn"}[q.Path]
				wantPs := map[string]string{"/x": "{}", "/u/7": `{id="7"}`, "/n/1": `{id="1"}`}[q.Path]
				if o.Paniced || o.CoreID != want || hv.ParamsString(o.Params) != wantPs || o.Status != 200 {
					rep("later-request-broken", q.String(), o.Summary(), fmt.Sprintf("200 %s %s", want, wantPs))
				} else if hv.ParamsString(o.ParamsExit) != wantPs || o.PatternExit != o.Pattern {
					rep("later-request-broken:context-shared", q.String(), fmt.Sprintf("at handler exit: params=%s pattern=%q", hv.ParamsString(o.ParamsExit), o.PatternExit), fmt.Sprintf("still %s and %q", wantPs, o.Pattern))
				}
				if len(rl.calls) != r0 || len(gl.calls) != g0 {
					rep("recover-called-without-panic", q.String(), "recovery function called", "not called")
				}
				continue
			}
			probe := fmt.Sprintf("%s: %s", e.Name, q.String())
			switch rec {
			case "none":
				if !o.Paniced {
					rep("swallowed-without-recovery", probe, o.Summary(), "the panic value reaches the caller of ServeHTTP")
				} else if !sameValue(o.Panic, val) {
					rep("value-changed", probe, fmt.Sprintf("caller received %#v", o.Panic), fmt.Sprintf("%#v", val))
				}
				if len(rl.calls) != r0 || len(gl.calls) != g0 {
					rep("recover-called-though-not-configured", probe, "a recovery function ran", "none configured at this level")
				}
			case "func":
				if o.Paniced {
					class := "escaped"
					if groupLevel {
						class = "group-notfound-unprotected"
					} else if strings.Contains(it.Kind, "inherited") {
						class = "not-inherited"
					}
					rep(class, probe, fmt.Sprintf("panic escaped ServeHTTP: %v", o.Panic), "contained; recovery function called once")
					continue
				}
				before := r0
				if log == gl {
					before = g0
				}
				if n := len(log.calls) - before; n != 1 {
					rep("called-n-times", probe, fmt.Sprintf("recovery function called %d times", n), "exactly once")
				} else if got := log.calls[len(log.calls)-1]; !sameValue(got, val) {
					rep("value-changed", probe, fmt.Sprintf("recovery function received %#v", got), fmt.Sprintf("%#v", val))
				}
				if rl != gl {
					if log == rl && len(gl.calls) != g0 || log == gl && len(rl.calls) != r0 {
						rep("wrong-level-recovery-called", probe, "the other level's recovery function ran too", "only the function in force at the level that served the request")
					}
				}
			case "report:router-log", "report:router-slog", "report:router-write":
				if o.Paniced {
					rep("escaped", probe, fmt.Sprintf("panic escaped ServeHTTP: %v", o.Panic), "contained; status 500 and a report")
					continue
				}
				text := c16Report.String()
				want := fmt.Sprint(val)
				ok := strings.HasPrefix(text, want+"\n")
				if rec == "report:router-slog" { // the report is the msg attribute of one slog record, quoted
					ok = strings.Contains(text, "level=ERROR") && strings.Contains(text, strings.Trim(strconv.Quote(want+"\n"), `"`)[:len(strings.Trim(strconv.Quote(want), `"`))])
				}
				if !ok {
					rep("report-garbled:"+strings.TrimPrefix(rec, "report:"), probe, fmt.Sprintf("report starts %q", firstN(text, 80)), fmt.Sprintf("the panic value as fmt prints it: %q, then the stack", want))
				}
			case "status":
				if o.Paniced {
					rep("escaped", probe, fmt.Sprintf("panic escaped ServeHTTP: %v", o.Panic), "contained; status 500")
				} else if o.Status != 500 && !strings.Contains(e.Site, "post") && e.Name[len(e.Name)-4:] != "next" {
					// the status can only be set if the header block is still open
					rep("status-recovery-wrong-status", probe, fmt.Sprintf("status %d", o.Status), "500")
				}
			}
		}
	}
	if it.Only != nil {
		runSeq(it.Only)
	} else {
		var rec func(seq []int)
		rec = func(seq []int) {
			runSeq(seq)
			if len(seq) == it.Len {
				return
			}
			for e := range events {
				rec(append(append([]int{}, seq...), e))
			}
		}
		rec([]int{it.First})
	}
	out.Viols = smallestPerSig(out.Viols)
	out.Outcomes = keys(outc)
	out.Sample = map[string]any{"kind": it.Kind, "first_event": events[it.First].Name, "requests": out.Evals}
	return out, nil
}

func firstN(s string, n int) string {
	if len(s) > n {
		return s[:n]
	}
	return s
}

func init() {
	explore.RegisterJob("c16/seq", c16Job)
	explore.RegisterJob("c16/recfault", c16RecFaultJob)
	explore.Register(&explore.Check{ID: "C16", Run: func(rc *explore.RunCtx) {
		if !poolIsShim {
			rc.Fail("C16 needs the overlay build with the deterministic context pool (./verif C16)")
			return
		}
		rc.Assume = append(rc.Assume,
			"also: WithRecovery(f) followed by WithRecovery(nil) (the last option wins: no recovery), Group.New(..., WithRecovery(nil)) below a group with recovery, and the built-in reporting options WithLogRecovery / WithSLogRecovery / WithWriteRecovery (contained, and the report starts with the panic value exactly as fmt prints it - one string value contains format verbs)",
			"instances: Router and Group with no recovery / WithRecovery(f) / WithStatusRecovery(500); routers made by Group.New inheriting and overriding the option; routers Added with and without their own option - 10 kinds, one long-lived instance per sequence",
			"events: 3 normal requests (one of them issues a second request from inside its handler, so two requests are alive at once) and 18 panic sites (handlers for GET/POST/HEAD/params, each middleware layer before and after next, 404, 405, OPTIONS, TRACE, OPTIONS *, group not-found, group Use middleware) x panic values {string, error, int, runtime.Error, struct, pointer, typed nil, http.ErrAbortHandler, io.EOF, a typed-nil error whose Error method faults, errors wrapping context.Canceled and context.DeadlineExceeded}",
			"all sequences of length <= 2 with all values (quick) and length 3 with two values; thorough: length 3 with all values and length 4 with one (the time budget may end the thorough tier early: the evidence says how many work items were explored)",
			"with recovery: nothing escapes, the function in force gets the identical value exactly once; every later request is served normally with its own parameters at handler entry and exit; without: the identical value reaches the caller")
		type plan struct {
			l    int
			vals []int
		}
		plans := []plan{{2, []int{0, 1, 2, 3, 4, 5, 6, 7, 8, 9, 10, 11}}, {3, []int{0, 3}}}
		if !rc.Quick() {
			plans = []plan{{3, []int{0, 1, 2, 3, 4, 5, 6, 7, 8, 9, 10, 11}}, {4, []int{0}}}
		}
		var items []c16Item
		for _, p := range plans {
			n := len(c16Events(p.vals))
			for _, k := range c16Kinds {
				for f := 0; f < n; f++ {
					items = append(items, c16Item{Kind: k, First: f, Len: p.l, Values: p.vals})
				}
			}
		}
		// a group that holds no router (yet, or any more): every request is the not-found handler's, and its panics
		// are the group recovery's like everywhere else
		for _, shape := range []string{"fresh", "last-router-removed", "only-router-rejects"} {
			gl := &recLog{}
			g := newGroup(mux.WithRecovery(func(w http.ResponseWriter, v any) { gl.calls = append(gl.calls, v); w.WriteHeader(500) }))
			switch shape {
			case "last-router-removed":
				g.New("r1", nil).Handle("/x", hv.Route("hx"), nil, "GET")
				g.Remove("r1")
			case "only-router-rejects":
				g.New("r1", mux.NewHosts(false, "other.com"))
			}
			for _, val := range []any{"boom", io.EOF} {
				before := len(gl.calls)
				o := hv.Serve(g, hv.Req{Method: "GET", Path: "/x", Host: "a.com", Fault: &hv.Fault{Site: "h", Val: val}})
				rc.Add("states", 1)
				if o.Paniced || len(gl.calls) != before+1 || !sameValue(gl.calls[len(gl.calls)-1], val) {
					rc.Report(explore.Violation{Property: "C16", Clause: "C16.contained", Class: "escaped:group-without-routers", Config: "NewGroup(WithRecovery(f)), " + shape, Probe: fmt.Sprintf("GET /x: the group's not-found handler panics with %v", val),
						Observed: fmt.Sprintf("escaped=%v (%v), recovery calls=%d", o.Paniced, o.Panic, len(gl.calls)-before), Expected: "contained: the group's recovery function called once with the value"})
				}
			}
		}
		explore.ParMap(rc, "c16/seq", items, func(i int, in c16Item, o simpleOut) { mergeSimple(rc, o, "requests") })
		explore.ParMap(rc, "c16/recfault", []int{0}, func(i int, in int, o simpleOut) { mergeSimple(rc, o, "requests") })
	}})
}
