package props

import (
	"encoding/json"
	"fmt"

	"verifharness/explore"
	"verifharness/ref"
)

// histSpec is a history exploration: an alphabet plus a per-state check.
type histSpec struct {
	Prop     string
	Alphabet func() []Op
	// Check inspects the state reached by hist (already applied to r and t)
	// and appends violations / probe counts / outcomes to c. It may rebuild
	// copies of the state with rebuild().
	Check func(cfg RouterCfg, hist []Op, r *Router, t *ref.Table, c *explore.Child, outc map[string]struct{})
}

type histCfg struct {
	Router RouterCfg `json:"router"`
}

func (s *histSpec) expand(raw json.RawMessage) (any, error) {
	var in explore.ExpandIn
	if err := json.Unmarshal(raw, &in); err != nil {
		return nil, err
	}
	var cfg histCfg
	if err := json.Unmarshal(in.Cfg, &cfg); err != nil {
		return nil, err
	}
	alpha := s.Alphabet()
	hist := make([]Op, len(in.History))
	for i, k := range in.History {
		hist[i] = alpha[k]
	}
	pr, pt, perr := buildHistory(cfg.Router, hist)
	if perr != "" {
		return nil, fmt.Errorf("parent history not replayable: %s", perr)
	}
	var kids []explore.Child
	if len(in.History) == 0 && in.Want(-1) {
		c := explore.Child{Op: -1}
		outc := map[string]struct{}{}
		s.Check(cfg.Router, nil, pr, pt, &c, outc)
		c.Key = explore.Key(pr) + "|" + pt.String()
		c.Outcomes = keys(outc)
		c.Viols = smallestPerSig(c.Viols)
		kids = append(kids, c)
	}
	for k, op := range alpha {
		if !Enabled(pt, op) || !in.Want(k) {
			continue
		}
		full := append(append([]Op{}, hist...), op)
		r, t, _ := buildHistory(cfg.Router, hist)
		c := explore.Child{Op: k}
		if v, bad := ApplyImpl(r, op); bad {
			c.Viols = append(c.Viols, explore.Violation{Property: s.Prop, Clause: s.Prop + ".no-panic", Class: "op-panic:" + shortPanic(v), Config: cfg.Router.String(), History: opsStrings(full),
				Observed: fmt.Sprintf("%s panicked: %v", op, v), Expected: "no panic"})
			c.Key, c.NoExpand = "panic:"+explore.Key(r), true
			kids = append(kids, c)
			continue
		}
		ApplyModel(t, op)
		outc := map[string]struct{}{}
		s.Check(cfg.Router, full, r, t, &c, outc)
		c.Viols = smallestPerSig(c.Viols)
		c.Key = explore.Key(r) + "|" + t.String()
		c.Outcomes = keys(outc)
		if len(in.History) == 1 && k < 2 {
			c.Sample = map[string]any{"history": opsStrings(full), "probes": c.Probes, "model_table": t.String()}
		}
		kids = append(kids, c)
	}
	return kids, nil
}

func (s *histSpec) register(job string) {
	explore.RegisterJob(job, s.expand)
}
