package props

import (
	"encoding/json"
	"fmt"
	"html"
	"io"
	"net/http"
	"net/http/httputil"
	"net/url"
	"strings"

	"github.com/issue9/mux/v9"
	"github.com/issue9/mux/v9/types"

	"verifharness/explore"
	"verifharness/hv"
	"verifharness/ref"
)

// ---- C18: TRACE follows WithTrace ----

func c18Alphabet() []Op {
	ops := c04Alphabet()
	ops = append(ops, Op{K: "use"})
	return ops
}

func c18Check(cfg RouterCfg, hist []Op, r *Router, t *ref.Table, c *explore.Child, outc map[string]struct{}) {
	hs := opsStrings(hist)
	rep := func(clause, class, probe, obs, exp string) {
		c.Viols = append(c.Viols, explore.Violation{Property: "C18", Clause: clause, Class: class, Config: cfg.String(), History: hs, Probe: probe, Observed: obs, Expected: exp})
	}
	trail := strings.TrimSuffix(strings.Repeat("A,", t.Uses), ",")
	paths := []string{"/nowhere", "*", "", "/"}
	for _, p := range c04Pool {
		paths = append(paths, Witness(ref.MustParse(p, ref.Interceptors{})))
	}
	for _, p := range paths {
		q := hv.Req{Method: "TRACE", Path: p}
		o := hv.Serve(r, q)
		c.Probes++
		outc[fmt.Sprintf("trace=%v/%d/%s", cfg.Trace, o.Status, o.Kind)] = struct{}{}
		if o.Paniced {
			rep("C18.no-panic", "panic", q.String(), fmt.Sprintf("panic: %v", o.Panic), "no panic")
			continue
		}
		if cfg.Trace {
			if o.Kind != "TRACE" {
				rep("C18.any-path", "trace-routed", q.String(), o.Summary(), "the configured TRACE handler, on any path")
				continue
			}
			if got := strings.Join(o.Trail, ","); got != trail {
				rep("C18.only-use-middlewares", "trace-middlewares", q.String(), "trail "+got, "only the Use middlewares: "+trail)
			}
			if o.Status != 200 || o.Header.Get("Content-Type") != "message/http" {
				rep("C18.helper", "content-type-after-status", q.String(), fmt.Sprintf("status %d, Content-Type as sent %q", o.Status, o.Header.Get("Content-Type")), "200 with Content-Type message/http sent with the response")
			}
			continue
		}
		// without the option TRACE is an ordinary method
		e := ExpectFor(t, p)
		if p == "*" || p == "" {
			continue
		}
		switch {
		case e.NotFound:
			if o.Kind != "404" {
				rep("C18.ordinary-method", "trace-answered-without-option", q.String(), o.Summary(), "404")
			}
		default:
			rt := t.Routes[o.Pattern]
			if rt == nil {
				rep("C18.ordinary-method", "trace-wrong-route", q.String(), o.Summary(), e.String())
			} else if h := rt.Methods["TRACE"]; h != "" && o.CoreID != h {
				rep("C18.ordinary-method", "registered-trace-not-served", q.String(), o.Summary(), "handler "+h)
			} else if got := strings.Join(o.Trail, ","); h != "" && got != trail {
				rep("C18.ordinary-method", "registered-trace-middlewares", q.String(), "trail "+got, "as any other registered method, the Use middlewares: "+trail)
			} else if h == "" && o.Kind != "405" {
				rep("C18.ordinary-method", "trace-answered-without-option", q.String(), o.Summary(), "405")
			}
		}
	}
	// Allow sets and Routes()
	routes := RoutesOf(r)
	for _, pat := range t.Patterns() {
		hasTrace := contains(routes[pat], "TRACE")
		wantTrace := cfg.Trace || t.Routes[pat].Methods["TRACE"] != ""
		if hasTrace != wantTrace {
			rep("C18.allow", "trace-missing-from-allow:routes", "Routes()["+pat+"]", strings.Join(routes[pat], ","), fmt.Sprintf("TRACE listed: %v", wantTrace))
		}
		w := Witness(t.Routes[pat].P)
		for _, m := range []string{"OPTIONS", "BOGUS"} {
			o := hv.Serve(r, hv.Req{Method: m, Path: w})
			c.Probes++
			if o.Paniced || o.Pattern != pat || o.Header == nil {
				continue
			}
			if got := contains(ref.ParseAllow(o.Header.Get("Allow")), "TRACE"); got != wantTrace {
				rep("C18.allow", "trace-missing-from-allow:"+strings.ToLower(o.Kind), m+" "+w+" Allow header", o.Header.Get("Allow"), fmt.Sprintf("TRACE listed: %v", wantTrace))
			}
		}
	}
	o := hv.Serve(r, hv.Req{Method: "OPTIONS", Path: "*"})
	c.Probes++
	if !o.Paniced && o.Header != nil {
		star := ref.ParseAllow(o.Header.Get("Allow"))
		if cfg.Trace && !contains(star, "TRACE") {
			rep("C18.allow", "trace-missing-from-allow:star", "OPTIONS * Allow header", o.Header.Get("Allow"), "TRACE listed")
		}
		if !cfg.Trace {
			// without the option TRACE is an ordinary method: listed server-wide exactly while some live route has it
			want := contains(t.StarAllow(), "TRACE")
			if got := contains(star, "TRACE"); got != want {
				rep("C18.allow", "ordinary-trace-star-allow", "OPTIONS * Allow header", o.Header.Get("Allow"), fmt.Sprintf("TRACE listed: %v", want))
			}
		}
	}
	// manual registration
	for _, p := range []string{"/posts", "/new"} {
		verdict, _ := t.Judge(p, []string{"TRACE"})
		r2, _, _ := buildHistory(cfg, hist)
		_, paniced := Guard(func() { r2.Handle(p, hv.Route("h:trace"), nil, "TRACE") })
		c.Probes++
		switch {
		case cfg.Trace && !paniced:
			rep("C18.not-registrable", "trace-registrable", fmt.Sprintf("Handle(%q, TRACE)", p), "accepted", "rejected: a TRACE handler is configured")
		case !cfg.Trace && verdict == ref.Accept && paniced:
			rep("C18.ordinary-method", "trace-not-registrable-without-option", fmt.Sprintf("Handle(%q, TRACE)", p), "rejected", "accepted: TRACE is an ordinary method without the option")
		}
	}
}

var c18Spec = &histSpec{Prop: "C18", Alphabet: c18Alphabet, Check: c18Check}

// ---- the Trace helper ----

type c18HelperItem struct {
	First int    `json:"first"`
	Only  string `json:"only,omitempty"`
}

var c18Bytes = []byte{'a', '<', '>', '&', '"', '\'', 0x00, 0xc3}

func mkTraceReq(method, path, hval, body string, unknownLen bool) *http.Request {
	r := &http.Request{Method: method, URL: &url.URL{Path: path}, Proto: "HTTP/1.1", ProtoMajor: 1, ProtoMinor: 1, Header: http.Header{}, Host: "h"}
	r.Header.Set("X-V", hval)
	if body != "" {
		r.Body = io.NopCloser(strings.NewReader(body))
		r.ContentLength = int64(len(body))
		if unknownLen { // chunked on the wire / a reader of unknown size
			r.ContentLength = -1
			r.TransferEncoding = []string{"chunked"}
		}
	}
	return r
}

func c18HelperJob(raw json.RawMessage) (any, error) {
	var it c18HelperItem
	json.Unmarshal(raw, &it)
	out := &simpleOut{}
	outc := map[string]struct{}{}
	strs := explore.AllStrings(c18Bytes, 2)
	strs = append(strs, "<a>", "a&b", "\"'<", "&lt;", "é<é")
	try := func(method, path, hval, body string, withBody, unknownLen bool) {
		probe := fmt.Sprintf("mux.Trace(method=%q path=%q X-V=%q body=%q unknown-length=%v, body=%v)", method, path, hval, body, unknownLen, withBody)
		if it.Only != "" && it.Only != probe {
			return
		}
		// an earlier TRACE answer whose client had gone away: nothing of it may turn up in the next answer
		gone := hv.NewWriter()
		gone.Broken = true
		Guard(func() { mux.Trace(gone, mkTraceReq("TRACE", "/earlier", "LEFTOVER-OF-ANOTHER-REQUEST", "earlier body", false), true) })
		w := hv.NewWriter()
		if len(path)%2 == 0 {
			w.Header().Set("Content-Type", "text/html; charset=utf-8") // what an outer middleware may have set as a default
		}
		pv, bad := Guard(func() { mux.Trace(w, mkTraceReq(method, path, hval, body, unknownLen), withBody) })
		w.Finish()
		out.Evals++
		rep := func(class, obs, exp string) {
			out.Viols = append(out.Viols, explore.Violation{Property: "C18", Clause: "C18.helper", Class: class, Probe: probe, Observed: obs, Expected: exp,
				Replay: explore.ItemReplay("c18/helper", c18HelperItem{First: it.First, Only: probe})})
			out.Viols = smallestPerSig(out.Viols)
		}
		if bad {
			rep("panic", fmt.Sprintf("panic: %v", pv), "no panic")
			return
		}
		dump, err := httputil.DumpRequest(mkTraceReq(method, path, hval, body, unknownLen), withBody)
		if err != nil {
			return
		}
		want := html.EscapeString(string(dump))
		outc[fmt.Sprintf("%d/%s/%v", w.Status, w.SentH.Get("Content-Type"), string(w.Body) == want)] = struct{}{}
		if w.Status != 200 {
			rep("status", fmt.Sprintf("%d", w.Status), "200")
		}
		if ct := w.SentH.Values("Content-Type"); len(ct) != 1 || ct[0] != "message/http" {
			rep("content-type-after-status", fmt.Sprintf("Content-Type as sent: %q (live map afterwards: %q)", ct, w.H.Values("Content-Type")), "exactly one Content-Type: message/http, sent with the response")
		}
		if cl := w.SentH.Get("Content-Length"); cl != "" && cl != fmt.Sprint(len(w.Body)) {
			rep("content-length-mismatch", fmt.Sprintf("Content-Length as sent: %s, body written: %d bytes", cl, len(w.Body)), "no Content-Length, or the length of the body that follows")
		}
		if string(w.Body) != want {
			class := "body-not-escaped-dump"
			if !withBody && body != "" && strings.Contains(string(w.Body), html.EscapeString(body)) {
				class = "body-included-unasked"
			}
			rep(class, fmt.Sprintf("%q", w.Body), fmt.Sprintf("%q", want))
		}
	}
	a := strs[it.First%len(strs)]
	for _, b := range strs {
		for _, withBody := range []bool{false, true} {
			try("TRACE", "/"+a, b, "", withBody, false)
			for _, unk := range []bool{false, true} {
				try("TRACE", "/p", a, b, withBody, unk)
				try("GET"+strings.ReplaceAll(a, "\x00", ""), "/"+b, "v", a+b, withBody, unk)
			}
		}
	}
	out.Outcomes = keys(outc)
	out.Sample = map[string]any{"first_string": a, "calls": out.Evals}
	return out, nil
}

// c18Composition: every way a router can come by its TRACE handler - the last WithTrace of its own option list
// wins, a router made by Group.New inherits the group's option unless it brings its own, a router that is
// merely Added keeps what it was made with.
func c18Composition(rc *explore.RunCtx) {
	tr := func(id string) *hv.H { return &hv.H{ID: id, Kind: "TRACE"} }
	type sys struct {
		name   string
		srv    func() (http.Handler, *Router)
		expect string // ID of the handler that answers TRACE, "" = TRACE is an ordinary method
	}
	systems := []sys{
		{"NewRouter(WithTrace(t1), WithTrace(t2))", func() (http.Handler, *Router) {
			r := NewRouter(RouterCfg{}, mux.WithTrace(tr("t1")), mux.WithTrace(tr("t2")))
			return r, r
		}, "t2"},
		{"NewGroup(WithTrace(tG)).New(r)", func() (http.Handler, *Router) {
			g := newGroup(mux.WithTrace(tr("tG")))
			return g, g.New("r", nil)
		}, "tG"},
		{"NewGroup(WithTrace(tG)).New(r, WithTrace(tR))", func() (http.Handler, *Router) {
			g := newGroup(mux.WithTrace(tr("tG")))
			return g, g.New("r", nil, mux.WithTrace(tr("tR")))
		}, "tR"},
		{"NewGroup(WithTrace(tG), WithURLDomain).New(r, WithLock, WithTrace(tR), WithURLDomain)", func() (http.Handler, *Router) {
			g := newGroup(mux.WithTrace(tr("tG")), mux.WithURLDomain("https://g"))
			return g, g.New("r", nil, mux.WithLock(true), mux.WithTrace(tr("tR")), mux.WithURLDomain("https://r"))
		}, "tR"},
		{"NewGroup().New(r, WithTrace(tR))", func() (http.Handler, *Router) {
			g := newGroup()
			return g, g.New("r", nil, mux.WithTrace(tr("tR")))
		}, "tR"},
		{"NewGroup(WithTrace(tG)).Add(NewRouter())", func() (http.Handler, *Router) {
			g := newGroup(mux.WithTrace(tr("tG")))
			r := NewRouter(RouterCfg{Name: "added"})
			g.Add(nil, r)
			return g, r
		}, ""},
		{"NewGroup().Add(NewRouter(WithTrace(tR)))", func() (http.Handler, *Router) {
			g := newGroup()
			r := NewRouter(RouterCfg{Name: "added"}, mux.WithTrace(tr("tR")))
			g.Add(nil, r)
			return g, r
		}, "tR"},
	}
	// an option value that is not a handler of this router's type is refused when the router is built (documented),
	// never silently dropped
	for _, bad := range []any{"not a handler", 42, func() {}} {
		if _, paniced := Guard(func() { NewRouter(RouterCfg{}, mux.WithTrace(bad)) }); !paniced {
			rc.Report(explore.Violation{Property: "C18", Clause: "C18.option-composition", Class: "wrong-type-trace-option-ignored", Config: fmt.Sprintf("NewRouter(WithTrace(%T))", bad), Probe: "NewRouter", Observed: "router built; the option was dropped", Expected: "panic: the value is not of the router's handler type"})
		}
	}
	// a router whose handler type is a plain value type: the zero value is a handler like any other, also for TRACE
	{
		var got []int
		vr := mux.NewRouter[int]("v", func(_ http.ResponseWriter, _ *http.Request, _ types.Route, h int) { got = append(got, h) }, 2,
			func(types.Node) int { return 3 }, func(types.Node) int { return 4 }, mux.WithTrace(0))
		vr.Handle("/a", 1, nil, "GET")
		for _, p := range []string{"/a", "/nowhere"} {
			got = got[:0]
			_, paniced := Guard(func() { vr.ServeHTTP(hv.NewWriter(), hv.NewRequest(hv.Req{Method: "TRACE", Path: p}, &hv.Obs{})) })
			rc.Add("states", 1)
			if paniced || len(got) != 1 || got[0] != 0 {
				rc.Report(explore.Violation{Property: "C18", Clause: "C18.option-composition", Class: "zero-value-trace-handler-ignored", Config: "NewRouter[int](..., WithTrace(0)); handlers: 0 = TRACE, 1 = GET /a, 2 = 404, 3 = 405, 4 = OPTIONS", Probe: "TRACE " + p,
					Observed: fmt.Sprintf("handlers called: %v (panic=%v)", got, paniced), Expected: "handlers called: [0]"})
			}
		}
		if _, paniced := Guard(func() { vr.Handle("/t", 5, nil, "TRACE") }); !paniced {
			rc.Report(explore.Violation{Property: "C18", Clause: "C18.option-composition", Class: "trace-registrable-mismatch", Config: "NewRouter[int](..., WithTrace(0))", Probe: "Handle(/t, TRACE)", Observed: "accepted", Expected: "rejected: a TRACE handler is configured"})
		}
	}
	for _, s := range systems {
		srv, r := s.srv()
		r.Handle("/a", hv.Route("hA"), nil, "GET")
		for _, via := range []struct {
			name string
			h    http.Handler
		}{{"through the group / router", srv}, {"router served directly", r}} {
			for _, p := range []string{"/a", "/nowhere", "*"} {
				o := hv.Serve(via.h, hv.Req{Method: "TRACE", Path: p})
				rc.Add("states", 1)
				rc.Outcome(fmt.Sprintf("composition/%s/%d", o.CoreID, o.Status))
				want := s.expect
				if want == "" {
					want = map[string]string{"/a": "405", "/nowhere": "404", "*": "405"}[p]
				}
				got := o.CoreID
				if o.Paniced {
					got = fmt.Sprintf("panic: %v", o.Panic)
				}
				if got != want {
					rc.Report(explore.Violation{Property: "C18", Clause: "C18.option-composition", Class: "wrong-trace-handler", Config: s.name, Probe: "TRACE " + p + " " + via.name, Observed: "answered by " + got, Expected: "answered by " + want})
				}
			}
		}
		// with a TRACE handler in force (and only then) TRACE cannot be registered by hand and is listed in Allow
		_, paniced := Guard(func() { r.Handle("/t", hv.Route("hT"), nil, "TRACE") })
		if paniced != (s.expect != "") {
			rc.Report(explore.Violation{Property: "C18", Clause: "C18.option-composition", Class: "trace-registrable-mismatch", Config: s.name, Probe: "Handle(/t, TRACE)", Observed: fmt.Sprintf("rejected=%v", paniced), Expected: fmt.Sprintf("rejected=%v", s.expect != "")})
		}
		if o := hv.Serve(r, hv.Req{Method: "OPTIONS", Path: "/a"}); o.Header != nil {
			if got := contains(ref.ParseAllow(o.Header.Get("Allow")), "TRACE"); got != (s.expect != "") {
				rc.Report(explore.Violation{Property: "C18", Clause: "C18.option-composition", Class: "trace-allow-mismatch", Config: s.name, Probe: "OPTIONS /a", Observed: o.Header.Get("Allow"), Expected: fmt.Sprintf("TRACE listed: %v", s.expect != "")})
			}
		}
	}
}

func init() {
	c18Spec.register("c18/expand")
	explore.RegisterJob("c18/helper", c18HelperJob)
	explore.Register(&explore.Check{ID: "C18", Run: func(rc *explore.RunCtx) {
		depth := 4
		if !rc.Quick() {
			depth = 5
		}
		rc.Set("depth_bound", depth)
		rc.Assume = append(rc.Assume,
			"route tables: every history over the C04 alphabet plus Use(A) up to the depth bound, with and without WithTrace(handler calling mux.Trace); in every state TRACE on every witness, on non-routes, on '*' and '', the Allow header of OPTIONS/405 and OPTIONS *, Routes(), and manual registration of TRACE on a live and on a new pattern",
			"option composition: 7 ways a router comes by its TRACE handler (repeated option, inherited from NewGroup, overridden in Group.New among other options, Added routers with and without their own) x TRACE on a route, a non-route and '*', through the group and directly; manual TRACE registration and the Allow header follow the handler actually in force",
			"helper: mux.Trace on the wire-semantics ResponseWriter for every pair of strings over {a < > & \" ' NUL 0xc3} up to length 2 (plus mixed samples) placed in path, header value, method and body, with the body flag both ways; status, Content-Type as sent, a Content-Length (if one is sent) equal to the body length, body = html.EscapeString(httputil.DumpRequest)")
		for _, cfg := range []RouterCfg{{}, {Trace: true}} {
			explore.BFS(rc, "c18/expand", histCfg{Router: cfg}, depth, true, "C18 "+cfg.String())
		}
		c18Composition(rc)
		n := len(explore.AllStrings(c18Bytes, 2)) + 5
		var items []c18HelperItem
		for i := 0; i < n; i++ {
			items = append(items, c18HelperItem{First: i})
		}
		explore.ParMap(rc, "c18/helper", items, func(i int, in c18HelperItem, o simpleOut) { mergeSimple(rc, o, "helper_calls") })
	}})
}
