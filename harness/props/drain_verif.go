//go:build verif

package props

import "github.com/issue9/mux/v9/types"

// drainPool empties the (shim) context pool so that every sequence starts alike.
func drainPool() { types.VerifDrainPool() }

const poolIsShim = true
