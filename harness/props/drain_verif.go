//go:build verif

package props

import (
	"github.com/issue9/mux/v9"
	"github.com/issue9/mux/v9/types"
)

// drainPool empties the (shim) context pool so that every sequence starts alike.
func drainPool() { types.VerifDrainPool() }

// heldLocks is the number of router locks held right now (0 between sequential operations).
func heldLocks() int64 { return mux.VerifHeldLocks() }

const poolIsShim = true
