// Package hv is the harness handler type T = *hv.H, the CallFunc, the
// header-snapshotting ResponseWriter and the per-request observation record.
package hv

import (
	"context"
	"fmt"
	"io"
	"net/http"
	"net/url"
	"sort"
	"strings"

	"github.com/issue9/mux/v9"
	"github.com/issue9/mux/v9/types"
)

// Step is one action of a handler program.
type Step struct {
	Op string // "WH" WriteHeader(N) | "W" Write N bytes | "Set" K=V | "Del" K
	N  int
	K  string
	V  string
}

func (s Step) String() string {
	switch s.Op {
	case "WH":
		return fmt.Sprintf("WriteHeader(%d)", s.N)
	case "W":
		return fmt.Sprintf("Write(%d)", s.N)
	case "Set":
		return fmt.Sprintf("Set(%s=%s)", s.K, s.V)
	case "Del":
		return fmt.Sprintf("Del(%s)", s.K)
	}
	return s.Op
}

// H is the user handler value given to mux.
type H struct {
	ID    string     // structural identity
	Kind  string     // "route" | "404" | "405" | "OPT" | "TRACE"
	Node  types.Node // builder-made handlers: the node captured at build time
	Prog  []Step     // behaviour of a "route" handler
	Inner *H         // non-nil: this is a middleware wrapper around Inner
	MW    string     // name of the wrapping middleware
}

// Trail lists the middleware names, outermost first.
func (h *H) Trail() []string {
	var t []string
	for x := h; x != nil && x.Inner != nil; x = x.Inner {
		t = append(t, x.MW)
	}
	return t
}

// Core returns the innermost handler.
func (h *H) Core() *H {
	x := h
	for x != nil && x.Inner != nil {
		x = x.Inner
	}
	return x
}

// Route makes a plain route handler.
func Route(id string, prog ...Step) *H { return &H{ID: id, Kind: "route", Prog: prog} }

func NotFound() *H { return &H{ID: "404", Kind: "404"} }

func Build405(n types.Node) *H { return &H{ID: "405", Kind: "405", Node: n} }

func BuildOPT(n types.Node) *H { return &H{ID: "OPT", Kind: "OPT", Node: n} }

func TraceH() *H { return &H{ID: "TRACE", Kind: "TRACE"} }

// FactoryCall records one invocation of a middleware factory.
type FactoryCall struct {
	MW, Next, Method, Pattern, Router string
}

// Log collects factory invocations of the middlewares of one experiment.
type Log struct {
	Calls []FactoryCall
	ByH   map[*H]FactoryCall // wrapper → the factory call that produced it
}

// MW is a harness middleware.
type MW struct {
	Name string
	Log  *Log
}

func (m MW) Middleware(next *H, method, pattern, router string) *H {
	nid := "<nil>"
	if next != nil {
		nid = next.ID
	}
	if m.Log != nil {
		m.Log.Calls = append(m.Log.Calls, FactoryCall{m.Name, nid, method, pattern, router})
	}
	w := &H{ID: m.Name + "(" + nid + ")", Inner: next, MW: m.Name}
	if m.Log != nil && m.Log.ByH != nil {
		m.Log.ByH[w] = FactoryCall{m.Name, nid, method, pattern, router}
	}
	return w
}

// Fault asks a site to panic during one request.
type Fault struct {
	Site string // "h" (innermost handler) | "mw:<name>:pre" | "mw:<name>:post"
	Val  any
}

// Obs is what one request observed.
type Obs struct {
	Fault *Fault // input: where to panic, nil = nowhere

	Called      int    // number of CallFunc invocations
	NilHandler  bool   // CallFunc got h == nil
	HID         string // full handler ID (with middleware wrappers)
	Kind        string // kind of the innermost handler
	CoreID      string
	Trail       []string
	NodeNil     bool
	Info        []string // informational responses as sent
	RawPath     string   // r.URL.RawPath as the handler sees it
	Pattern     string   // route.Node().Pattern()
	Methods     []string
	MethodsLive []string // not a copy: what Node().Methods() returned
	Allow       string   // route.Node().AllowHeader()
	HNodePat    string   // builder-made handler: captured node's pattern
	HAllow      string   // builder-made handler: captured node's AllowHeader() now
	Router      string
	Params      map[string]string
	ParamsBad   string // non-empty: accessors disagreed
	Path        string // req.URL.Path seen by the handler
	WIsHead     bool   // ResponseWriter given to the handler is not the harness writer

	Status  int
	Header  http.Header // as sent
	Body    []byte
	Live    http.Header // live header map after the handler returned
	Panic   any         // value that escaped ServeHTTP
	Paniced bool
	Served  *H // the handler value the CallFunc received

	// only under the controlled scheduler: re-read after the exit point
	ParamsExit  map[string]string
	PatternExit string
	RouterExit  string
}

type obsKey struct{}

// Writer is a ResponseWriter with wire semantics: headers are frozen when the
// status line is sent.
type Writer struct {
	H      http.Header
	Sent   bool
	Status int
	SentH  http.Header
	Body   []byte
	Writes int
	Info   []string // informational (1xx) responses sent before the final one: "103 <headers at that moment>"
	Broken bool     // the peer is gone: every Write fails
}

func NewWriter() *Writer { return &Writer{H: http.Header{}} }

func (w *Writer) Header() http.Header { return w.H }

func (w *Writer) WriteHeader(code int) {
	if code >= 100 && code <= 199 && code != 101 {
		// net/http sends an informational response at once, with the headers as they are now, and goes on:
		// the final status and headers are still open
		if !w.Sent {
			var ks []string
			for k, vs := range w.H {
				ks = append(ks, k+"="+strings.Join(vs, ","))
			}
			sort.Strings(ks)
			w.Info = append(w.Info, fmt.Sprintf("%d %s", code, strings.Join(ks, ";")))
		}
		return
	}
	if !w.Sent {
		w.Sent = true
		w.Status = code
		w.SentH = w.H.Clone()
	}
}

func (w *Writer) Write(b []byte) (int, error) {
	if !w.Sent {
		w.WriteHeader(200)
	}
	w.Writes++
	if w.Broken {
		return 0, io.ErrClosedPipe
	}
	w.Body = append(w.Body, b...)
	return len(b), nil
}

func (w *Writer) Finish() {
	if !w.Sent {
		w.WriteHeader(200)
	}
}

// FlushWriter is a Writer that also offers http.Flusher, the way net/http's own writer does: a flush commits status
// and headers as they are at that moment. The plain Writer offers nothing beyond http.ResponseWriter.
type FlushWriter struct{ *Writer }

func (w *FlushWriter) Flush() {
	if !w.Sent {
		w.WriteHeader(200)
	}
}

// Mounted, when set, is what a handler step "Mount" hands the request to: another http.Handler (typically a
// second router) serving the same request with the writer the outer handler was given.
var Mounted http.Handler

// Nested, when set, is what a handler step "Nest" does: typically it serves another request on the same
// server while the outer request is still alive.
var Nested func()

// Point, when set, is a scheduling point of the controlled scheduler: it is
// called at handler entry and exit so that a request can be parked inside its
// handler while other threads run.
var Point func()

// Call is the CallFunc given to mux.
func Call(w http.ResponseWriter, r *http.Request, route types.Route, h *H) {
	if Point != nil {
		Point()
	}
	o, _ := r.Context().Value(obsKey{}).(*Obs)
	if o == nil {
		o = &Obs{}
	}
	o.Called++
	switch w.(type) {
	case *Writer, *FlushWriter:
	default:
		o.WIsHead = true
	}
	o.Path = r.URL.Path
	o.RawPath = r.URL.RawPath
	if route != nil {
		o.Router = route.RouterName()
		n := route.Node()
		if n == nil {
			o.NodeNil = true
		} else {
			// "n != nil" is all a user can check: a typed nil pointer inside the interface faults right here.
			o.Pattern = n.Pattern()
			o.MethodsLive = n.Methods() // the very slice mux handed out
			o.Methods = append([]string(nil), o.MethodsLive...)
			o.Allow = n.AllowHeader()
		}
		ps := route.Params()
		o.Params = map[string]string{}
		cnt := 0
		ps.Range(func(k, v string) { o.Params[k] = v; cnt++ })
		if cnt != ps.Count() || cnt != len(o.Params) {
			o.ParamsBad = fmt.Sprintf("Range visited %d, Count()=%d", cnt, ps.Count())
		}
		for k, v := range o.Params {
			if g, ok := ps.Get(k); !ok || g != v {
				o.ParamsBad = fmt.Sprintf("Get(%q)=%q,%v but Range gave %q", k, g, ok, v)
			}
			if !ps.Exists(k) {
				o.ParamsBad = fmt.Sprintf("Exists(%q)=false but Range gave it", k)
			}
		}
	}
	if h == nil {
		o.NilHandler = true
		o.HID = "<nil>"
		// what a user handler of a nillable type would do: calling it faults.
		panic("harness: nil handler invoked")
	}
	o.HID = h.ID
	o.Served = h
	o.Trail = h.Trail()
	c := h.Core()
	if c == nil {
		o.NilHandler = true
		panic("harness: middleware chain ends in nil handler")
	}
	o.Kind = c.Kind
	o.CoreID = c.ID
	if c.Node != nil {
		o.HNodePat = c.Node.Pattern()
		o.HAllow = c.Node.AllowHeader()
	}
	run(w, r, o, h)
	if Point != nil {
		Point()
	}
	// what the request sees when its handler is done: still its own parameters and node?
	if route != nil {
		o.ParamsExit = map[string]string{}
		route.Params().Range(func(k, v string) { o.ParamsExit[k] = v })
		o.RouterExit = route.RouterName()
		if n := route.Node(); n != nil {
			o.PatternExit = n.Pattern()
		}
	}
}

func run(w http.ResponseWriter, r *http.Request, o *Obs, h *H) {
	if h.Inner != nil {
		if f := o.Fault; f != nil && f.Site == "mw:"+h.MW+":pre" {
			panic(f.Val)
		}
		run(w, r, o, h.Inner)
		if f := o.Fault; f != nil && f.Site == "mw:"+h.MW+":post" {
			panic(f.Val)
		}
		return
	}
	if f := o.Fault; f != nil && f.Site == "h" {
		panic(f.Val)
	}
	switch h.Kind {
	case "404":
		w.WriteHeader(404)
	case "405":
		w.Header().Set("Allow", h.Node.AllowHeader())
		w.WriteHeader(405)
	case "OPT":
		w.Header().Set("Allow", h.Node.AllowHeader())
	case "TRACE":
		mux.Trace(w, r, false)
	default:
		kept := w.Header() // what a handler keeps when it writes `h := w.Header()` at its top
		for _, s := range h.Prog {
			switch s.Op {
			case "KSet": // sets a header through the map obtained at the start of the handler
				kept.Set(s.K, s.V)
			case "WH":
				w.WriteHeader(s.N)
			case "W":
				w.Write([]byte(strings.Repeat("x", s.N)))
			case "Wchk": // a careful writer: gives up when Write does not report exactly what it was given
				if n, err := w.Write([]byte(strings.Repeat("x", s.N))); n != s.N || err != nil {
					return
				}
			case "IfH": // reads one of its own response headers back and writes only if it has the value
				if w.Header().Get(s.K) == s.V {
					w.Write([]byte(strings.Repeat("x", s.N)))
				}
			case "Set":
				w.Header().Set(s.K, s.V)
			case "Del":
				w.Header().Del(s.K)
			case "Copy": // the body streamed with io.Copy from a source that has no WriteTo: uses the writer's ReadFrom if it has one
				io.Copy(w, io.LimitReader(strings.NewReader(strings.Repeat("y", s.N)), int64(s.N)))
			case "Mut": // edits the value slice of a header in place instead of calling Set
				if vs := w.Header()[s.K]; len(vs) > 0 {
					vs[0] = s.V
				}
			case "Flush": // a careful handler: flushes only through what the writer offers
				if fl, ok := w.(http.Flusher); ok {
					fl.Flush()
				} else {
					http.NewResponseController(w).Flush() // follows Unwrap() chains; "not supported" is not an error worth acting on
				}
			case "Mount":
				if Mounted != nil {
					Mounted.ServeHTTP(w, r)
				}
			case "Panic":
				panic("harness: handler program panics")
			case "Nest":
				if Nested != nil {
					Nested()
				}
			}
		}
	}
}

// Req describes a request.
type Req struct {
	Method  string
	Path    string
	RawPath string // URL.RawPath, "" = canonical
	Host    string
	URLHost string // URL.Host: empty for an origin-form target; an absolute-form target or a rewriting proxy sets it
	Header  map[string]string
	Multi   map[string][]string // further field lines of a header (a list header may be spread over several lines)
	Gone    bool                // the request's context is already cancelled (the client went away)
	Flusher bool                // the server's writer offers http.Flusher (net/http's does; many wrappers do not)
	PreVary string              // a Vary member a handler in front of the router has already put on the response
	Fault   *Fault
}

func (q Req) String() string {
	s := fmt.Sprintf("%s %q", q.Method, q.Path)
	if q.RawPath != "" {
		s += " rawpath=" + q.RawPath
	}
	if q.Host != "" {
		s += " host=" + q.Host
	}
	if q.URLHost != "" {
		s += " url.host=" + q.URLHost
	}
	if q.PreVary != "" {
		s += " response-already-has-vary=" + q.PreVary
	}
	if q.Gone {
		s += " (context cancelled)"
	}
	if len(q.Header) > 0 {
		ks := make([]string, 0, len(q.Header))
		for k := range q.Header {
			ks = append(ks, k)
		}
		sort.Strings(ks)
		for _, k := range ks {
			s += fmt.Sprintf(" %s=%q", k, q.Header[k])
		}
	}
	if len(q.Multi) > 0 {
		ks := make([]string, 0, len(q.Multi))
		for k := range q.Multi {
			ks = append(ks, k)
		}
		sort.Strings(ks)
		for _, k := range ks {
			s += fmt.Sprintf(" +%s=%q", k, q.Multi[k])
		}
	}
	return s
}

// NewRequest builds the *http.Request without any parsing: the path bytes are
// given to mux exactly as stated.
func NewRequest(q Req, o *Obs) *http.Request {
	r := &http.Request{
		Method: q.Method,
		URL:    &url.URL{Path: q.Path, RawPath: q.RawPath, Host: q.URLHost},
		Proto:  "HTTP/1.1", ProtoMajor: 1, ProtoMinor: 1,
		Header: http.Header{},
		Host:   q.Host,
	}
	for k, v := range q.Header {
		r.Header.Set(k, v)
	}
	for k, vs := range q.Multi {
		for _, v := range vs {
			r.Header.Add(k, v)
		}
	}
	o.Fault = q.Fault
	ctx := context.WithValue(context.Background(), obsKey{}, o)
	if q.Gone {
		c, cancel := context.WithCancel(ctx)
		cancel()
		ctx = c
	}
	return r.WithContext(ctx)
}

// Serve sends q to s and returns the observation. A panic escaping ServeHTTP is
// recorded, not propagated.
func Serve(s http.Handler, q Req) *Obs {
	o := &Obs{}
	w := NewWriter()
	r := NewRequest(q, o)
	if q.PreVary != "" {
		w.H.Add("Vary", q.PreVary)
	}
	var rw http.ResponseWriter = w
	if q.Flusher {
		rw = &FlushWriter{w}
	}
	func() {
		defer func() {
			if e := recover(); e != nil {
				o.Paniced = true
				o.Panic = e
			}
		}()
		s.ServeHTTP(rw, r)
	}()
	if !o.Paniced {
		w.Finish()
	}
	o.Status = w.Status
	o.Header = w.SentH
	o.Body = w.Body
	o.Info = w.Info
	o.Live = w.H
	return o
}

// ServeCapture is Serve that also hands out the handler value given to the CallFunc.
func ServeCapture(s http.Handler, q Req, served **H) *Obs {
	o := Serve(s, q)
	*served = o.Served
	return o
}

// ParamsString renders params deterministically.
func ParamsString(m map[string]string) string {
	ks := make([]string, 0, len(m))
	for k := range m {
		ks = append(ks, k)
	}
	sort.Strings(ks)
	var b strings.Builder
	b.WriteByte('{')
	for i, k := range ks {
		if i > 0 {
			b.WriteByte(',')
		}
		fmt.Fprintf(&b, "%s=%q", k, m[k])
	}
	b.WriteByte('}')
	return b.String()
}

// Summary is a compact deterministic rendering of an observation (what the
// client and the handler saw), used for frame conditions and differentials.
func (o *Obs) Summary() string {
	if o.Paniced {
		return fmt.Sprintf("PANIC(%v)", o.Panic)
	}
	allow := ""
	if o.Header != nil {
		allow = o.Header.Get("Allow")
	}
	return fmt.Sprintf("st=%d h=%s pat=%q node.allow=%q hdr.allow=%q ps=%s router=%q path=%q", o.Status, o.HID, o.Pattern, o.Allow, allow, ParamsString(o.Params), o.Router, o.Path)
}
