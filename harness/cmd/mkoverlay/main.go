// Command mkoverlay writes a `go build -overlay` description that builds
// issue9/mux with its "sync" imports redirected to the vsync shim, without
// touching /repo. The rewrite is by import spec (go/parser), so it follows
// edits to the repository.
package main

import (
	"bytes"
	"encoding/json"
	"flag"
	"fmt"
	"go/ast"
	"go/format"
	"go/parser"
	"go/token"
	"os"
	"path/filepath"
	"strconv"
	"strings"
)

func main() {
	repo := flag.String("repo", "/repo", "repository root")
	shim := flag.String("shim", "", "directory with vsync/ and hook/")
	out := flag.String("out", "", "output directory")
	flag.Parse()
	must(os.RemoveAll(*out))
	must(os.MkdirAll(*out, 0o755))
	replace := map[string]string{}
	n := 0
	err := filepath.Walk(*repo, func(path string, info os.FileInfo, err error) error {
		if err != nil {
			return err
		}
		if info.IsDir() {
			if name := info.Name(); name == ".git" || name == "examples" || name == "routertest" {
				return filepath.SkipDir
			}
			return nil
		}
		if !strings.HasSuffix(path, ".go") || strings.HasSuffix(path, "_test.go") {
			return nil
		}
		fset := token.NewFileSet()
		f, err := parser.ParseFile(fset, path, nil, parser.ParseComments)
		if err != nil {
			return err
		}
		changed := false
		for _, im := range f.Imports {
			p, _ := strconv.Unquote(im.Path.Value)
			if p == "sync" {
				im.Path.Value = strconv.Quote("github.com/issue9/mux/v9/internal/vsync")
				if im.Name == nil {
					im.Name = &astIdent
				}
				changed = true
			}
			if p == "sync/atomic" {
				return fmt.Errorf("%s imports sync/atomic: the shim has no atomics yet", path)
			}
		}
		if !changed {
			return nil
		}
		var buf bytes.Buffer
		if err := format.Node(&buf, fset, f); err != nil {
			return err
		}
		n++
		dst := filepath.Join(*out, fmt.Sprintf("rewritten_%d_%s", n, filepath.Base(path)))
		if err := os.WriteFile(dst, buf.Bytes(), 0o644); err != nil {
			return err
		}
		replace[path] = dst
		return nil
	})
	must(err)
	replace[filepath.Join(*repo, "internal/vsync/vsync.go")] = filepath.Join(*shim, "vsync/vsync.go")
	replace[filepath.Join(*repo, "zz_verif_hook.go")] = filepath.Join(*shim, "hook/zz_verif_hook.go")
	replace[filepath.Join(*repo, "types/zz_verif_types_hook.go")] = filepath.Join(*shim, "hook/zz_verif_types_hook.go")
	b, _ := json.MarshalIndent(map[string]any{"Replace": replace}, "", " ")
	must(os.WriteFile(filepath.Join(*out, "overlay.json"), b, 0o644))
	fmt.Printf("overlay: %d files rewritten (sync -> vsync), %d entries\n", n, len(replace))
}

var astIdent = ast.Ident{Name: "sync"}

func must(err error) {
	if err != nil {
		fmt.Fprintln(os.Stderr, "mkoverlay:", err)
		os.Exit(1)
	}
}
