// Command check runs one property check (see /verif/DESIGN.md).
package main

import (
	"os"

	"verifharness/explore"
	_ "verifharness/props"
)

func main() {
	root := os.Getenv("VERIF_ROOT")
	if root == "" {
		root = "/verif"
	}
	explore.Main(root)
}
