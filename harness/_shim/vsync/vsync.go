// Package vsync is the overlay-only replacement of "sync" inside issue9/mux
// when it is built for the controlled scheduler (go build -overlay, -tags verif).
// With Hook == nil every type behaves like its sync counterpart (Pool is a
// deterministic LIFO free list either way).
package vsync

import (
	"sync"
	"sync/atomic"
	"unsafe"
)

// operations announced to the hook
const (
	OpLockAnnounce = iota + 1 // a writer declares its intent (always enabled)
	OpLockAcquire             // the writer takes the lock (enabled when free)
	OpUnlock                  // after the real Unlock
	OpRLock                   // before the real RLock (enabled when no writer holds or waits)
	OpRUnlock                 // after the real RUnlock
	OpPoolGet
	OpPoolPut
)

// Hook is called at every synchronisation operation. Set before any thread
// starts; nil = pass-through.
var Hook func(op int, obj uintptr)

type (
	WaitGroup = sync.WaitGroup
	Once      = sync.Once
	Map       = sync.Map
	Locker    = sync.Locker
)

type RWMutex struct{ mu sync.RWMutex }

// held counts the read and write locks of all shim mutexes that are currently held (a sequential harness can
// assert that it is zero between operations: a lock leaked on an error path is otherwise only seen as a hang).
var held int64

// Held returns the number of shim locks currently held.
func Held() int64 { return atomic.LoadInt64(&held) }

func (m *RWMutex) Lock() {
	if h := Hook; h != nil {
		h(OpLockAnnounce, uintptr(unsafe.Pointer(m)))
		h(OpLockAcquire, uintptr(unsafe.Pointer(m)))
	}
	m.mu.Lock()
	atomic.AddInt64(&held, 1)
}

func (m *RWMutex) Unlock() {
	atomic.AddInt64(&held, -1)
	m.mu.Unlock()
	if h := Hook; h != nil {
		h(OpUnlock, uintptr(unsafe.Pointer(m)))
	}
}

func (m *RWMutex) RLock() {
	if h := Hook; h != nil {
		h(OpRLock, uintptr(unsafe.Pointer(m)))
	}
	m.mu.RLock()
	atomic.AddInt64(&held, 1)
}

func (m *RWMutex) RUnlock() {
	atomic.AddInt64(&held, -1)
	m.mu.RUnlock()
	if h := Hook; h != nil {
		h(OpRUnlock, uintptr(unsafe.Pointer(m)))
	}
}

func (m *RWMutex) TryLock() bool  { return m.mu.TryLock() }
func (m *RWMutex) TryRLock() bool { return m.mu.TryRLock() }
func (m *RWMutex) RLocker() sync.Locker {
	return (*rlocker)(m)
}

type rlocker RWMutex

func (r *rlocker) Lock()   { (*RWMutex)(r).RLock() }
func (r *rlocker) Unlock() { (*RWMutex)(r).RUnlock() }

type Mutex struct{ mu RWMutex }

func (m *Mutex) Lock()         { m.mu.Lock() }
func (m *Mutex) Unlock()       { m.mu.Unlock() }
func (m *Mutex) TryLock() bool { return m.mu.TryLock() }

// Pool is a deterministic LIFO free list: Get returns the most recently Put
// object - maximal reuse, the adversarial choice for pooled request contexts.
type Pool struct {
	New   func() any
	mu    sync.Mutex
	items []any
}

func (p *Pool) Get() any {
	if h := Hook; h != nil {
		h(OpPoolGet, uintptr(unsafe.Pointer(p)))
	}
	p.mu.Lock()
	if n := len(p.items); n > 0 {
		x := p.items[n-1]
		p.items = p.items[:n-1]
		p.mu.Unlock()
		return x
	}
	p.mu.Unlock()
	if p.New != nil {
		return p.New()
	}
	return nil
}

func (p *Pool) Put(x any) {
	if h := Hook; h != nil {
		h(OpPoolPut, uintptr(unsafe.Pointer(p)))
	}
	p.mu.Lock()
	p.items = append(p.items, x)
	p.mu.Unlock()
}

// Drain empties the pool (used between executions so that each starts alike).
func (p *Pool) Drain() {
	p.mu.Lock()
	p.items = nil
	p.mu.Unlock()
}
