// Package vsync is the overlay-only replacement of "sync" inside issue9/mux
// when it is built for the controlled scheduler (go build -overlay, -tags verif).
// With Hook == nil every type behaves like its sync counterpart (Pool is a
// deterministic LIFO free list either way).
package vsync

import (
	"sync"
	"sync/atomic"
	"unsafe"
)

// operations announced to the hook
const (
	OpLockAnnounce = iota + 1 // a writer declares its intent (always enabled)
	OpLockAcquire             // the writer takes the lock (enabled when free)
	OpUnlock                  // after the real Unlock
	OpRLock                   // before the real RLock (enabled when no writer holds or waits)
	OpRUnlock                 // after the real RUnlock
	OpPoolGet
	OpPoolPut
)

// Hook is called at every synchronisation operation. Set before any thread
// starts; nil = pass-through.
var Hook func(op int, obj uintptr)

type (
	WaitGroup = sync.WaitGroup
	Once      = sync.Once
	Map       = sync.Map
	Locker    = sync.Locker
)

type RWMutex struct{ mu sync.RWMutex }

// held counts the read and write locks of all shim mutexes that are currently held (a sequential harness can
// assert that it is zero between operations: a lock leaked on an error path is otherwise only seen as a hang).
//
// It is a plain integer touched only inside //go:norace functions: an atomic here would be a synchronisation
// operation of its own and would order the accesses of different threads for the race detector (which is
// exactly what the scheduler's hand-off avoids). Harness threads run one at a time, so plain updates are exact.
var held int64

// Held returns the number of shim locks currently held.
//
//go:norace
func Held() int64 { return held }

//go:norace
func addHeld(d int64) { held += d }

func (m *RWMutex) Lock() {
	if h := Hook; h != nil {
		h(OpLockAnnounce, uintptr(unsafe.Pointer(m)))
		h(OpLockAcquire, uintptr(unsafe.Pointer(m)))
	}
	m.mu.Lock()
	addHeld(1)
}

func (m *RWMutex) Unlock() {
	addHeld(-1)
	m.mu.Unlock()
	if h := Hook; h != nil {
		h(OpUnlock, uintptr(unsafe.Pointer(m)))
	}
}

func (m *RWMutex) RLock() {
	if h := Hook; h != nil {
		h(OpRLock, uintptr(unsafe.Pointer(m)))
	}
	m.mu.RLock()
	addHeld(1)
}

func (m *RWMutex) RUnlock() {
	addHeld(-1)
	m.mu.RUnlock()
	if h := Hook; h != nil {
		h(OpRUnlock, uintptr(unsafe.Pointer(m)))
	}
}

func (m *RWMutex) TryLock() bool  { return m.mu.TryLock() }
func (m *RWMutex) TryRLock() bool { return m.mu.TryRLock() }
func (m *RWMutex) RLocker() sync.Locker {
	return (*rlocker)(m)
}

type rlocker RWMutex

func (r *rlocker) Lock()   { (*RWMutex)(r).RLock() }
func (r *rlocker) Unlock() { (*RWMutex)(r).RUnlock() }

type Mutex struct{ mu RWMutex }

func (m *Mutex) Lock()         { m.mu.Lock() }
func (m *Mutex) Unlock()       { m.mu.Unlock() }
func (m *Mutex) TryLock() bool { return m.mu.TryLock() }

// Pool is a deterministic LIFO free list: Get returns the most recently Put
// object - maximal reuse, the adversarial choice for pooled request contexts.
//
// Like sync.Pool it orders only the Put of an object before the Get that
// returns that very object (a per-slot atomic); the stack itself is plain
// memory handled in //go:norace functions, because a mutex around it would
// order ALL pool operations of all threads for the race detector. Harness
// threads run one at a time (or the program is sequential), so that is exact.
type Pool struct {
	New   func() any
	items []*poolSlot
}

type poolSlot struct{ v atomic.Value }

type boxed struct{ x any }

func (p *Pool) Get() any {
	if h := Hook; h != nil {
		h(OpPoolGet, uintptr(unsafe.Pointer(p)))
	}
	if s := p.pop(); s != nil {
		return s.v.Load().(boxed).x // acquire: ordered after the Put of this object
	}
	if p.New != nil {
		return p.New()
	}
	return nil
}

func (p *Pool) Put(x any) {
	if h := Hook; h != nil {
		h(OpPoolPut, uintptr(unsafe.Pointer(p)))
	}
	s := &poolSlot{}
	s.v.Store(boxed{x}) // release
	p.push(s)
}

//go:norace
func (p *Pool) pop() *poolSlot {
	n := len(p.items)
	if n == 0 {
		return nil
	}
	s := p.items[n-1]
	p.items[n-1] = nil
	p.items = p.items[:n-1]
	return s
}

//go:norace
func (p *Pool) push(s *poolSlot) {
	if len(p.items) == cap(p.items) { // grow by hand: append's helper is race-annotated
		n := make([]*poolSlot, len(p.items), 2*cap(p.items)+8)
		copy(n, p.items)
		p.items = n
	}
	p.items = p.items[:len(p.items)+1]
	p.items[len(p.items)-1] = s
}

// Drain empties the pool (used between executions so that each starts alike).
//
//go:norace
func (p *Pool) Drain() { p.items = nil }
