//go:build verif

package mux

import "github.com/issue9/mux/v9/internal/vsync"

// VerifSetHook installs the scheduler hook of the verification harness
// (overlay-only file, never part of the repository).
func VerifSetHook(h func(op int, obj uintptr)) { vsync.Hook = h }

// VerifHeldLocks is the number of tree locks currently held, process-wide.
func VerifHeldLocks() int64 { return vsync.Held() }
