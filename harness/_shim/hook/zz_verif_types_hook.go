//go:build verif

package types

// VerifDrainPool empties the context pool (overlay-only file).
func VerifDrainPool() { contextPool.Drain() }
