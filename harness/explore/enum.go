package explore

// Strings calls f for prefix and every extension of it by up to extra bytes of
// alphabet, in shortlex-compatible depth-first order. It is the exhaustive
// small-scope enumerator of Engine I.
func Strings(alphabet []byte, prefix string, extra int, f func(string)) {
	buf := make([]byte, len(prefix), len(prefix)+extra)
	copy(buf, prefix)
	var rec func(n int)
	rec = func(n int) {
		f(string(buf))
		if n == 0 {
			return
		}
		for _, b := range alphabet {
			buf = append(buf, b)
			rec(n - 1)
			buf = buf[:len(buf)-1]
		}
	}
	rec(extra)
}

// AllStrings returns every string over alphabet of length ≤ maxLen.
func AllStrings(alphabet []byte, maxLen int) []string {
	var out []string
	Strings(alphabet, "", maxLen, func(s string) { out = append(out, s) })
	return out
}

// Edit1 returns all strings at edit distance 1 from s over alphabet.
func Edit1(s string, alphabet []byte) []string {
	var out []string
	for i := 0; i <= len(s); i++ {
		if i < len(s) {
			out = append(out, s[:i]+s[i+1:])
		}
		for _, b := range alphabet {
			out = append(out, s[:i]+string(b)+s[i:])
			if i < len(s) && s[i] != b {
				out = append(out, s[:i]+string(b)+s[i+1:])
			}
		}
	}
	return out
}
