package explore

import (
	"bufio"
	"crypto/sha256"
	"encoding/hex"
	"encoding/json"
	"fmt"
	"io"
	"os"
	"os/exec"
	"path/filepath"
	"runtime"
	"sort"
	"strconv"
	"strings"
	"sync"
	"time"
)

// Violation is one counterexample.
type Violation struct {
	Property string   `json:"property"`
	Clause   string   `json:"clause"`
	Class    string   `json:"class"`
	Config   string   `json:"config,omitempty"`
	History  []string `json:"history,omitempty"`
	Probe    string   `json:"probe,omitempty"`
	Observed string   `json:"observed"`
	Expected string   `json:"expected"`
	// Replay is the machine-readable recipe understood by the property's
	// replay function (fresh process, no explorer).
	Replay json.RawMessage `json:"replay,omitempty"`
	// ProcessPrefix, when present, lists the work items the same worker process had handled before the one in
	// Replay: the violation reproduces (deterministically, in a fresh process) only after them, i.e. the code
	// under test carries state from the instances of one work item to those of the next.
	ProcessPrefix *ProcPrefix `json:"process_prefix,omitempty"`
	Note          string      `json:"note,omitempty"`

	prefixFn func() *ProcPrefix // how to obtain ProcessPrefix if it is needed (only evaluated when a replay alone fails)
}

// ProcPrefix is a sequence of work items of one job, in the order one process handled them.
type ProcPrefix struct {
	Job   string            `json:"job"`
	Items []json.RawMessage `json:"items"`
	whole json.RawMessage   // the work item itself, as it was handed to the worker (Replay may be narrowed to one probe of it)
}

func (v Violation) Sig() string { return v.Property + "|" + v.Clause + "|" + v.Class }

func (v Violation) size() int {
	n := len(v.History)*1000 + len(v.Probe)
	for _, h := range v.History {
		n += len(h)
	}
	return n
}

// Finding is an entry of /verif/known_findings.json.
type Finding struct {
	Status      string `json:"status"` // "open" | "fixed"
	Property    string `json:"property"`
	Clause      string `json:"clause"`
	Class       string `json:"class"`
	Witness     string `json:"witness"`
	Description string `json:"description"`
	Commit      string `json:"commit,omitempty"`
}

// Job is a unit of work executed inside a worker process.
type Job func(raw json.RawMessage) (any, error)

var jobs = map[string]Job{}

// RegisterJob makes a job callable by name from the parent.
func RegisterJob(name string, j Job) { jobs[name] = j }

// Check is one registered property check.
type Check struct {
	ID  string
	Run func(rc *RunCtx)
}

// jobReplay is the generic replay recipe: re-run one (narrowed) work item of a
// job in a fresh process and look for the violation with the same signature
// and probe.
type jobReplay struct {
	Job  string          `json:"job"`
	Item json.RawMessage `json:"item"`
}

// ItemReplay builds the replay recipe for a violation found by job on item.
func ItemReplay(job string, item any) json.RawMessage {
	b, _ := json.Marshal(item)
	r, _ := json.Marshal(jobReplay{Job: job, Item: b})
	return r
}

// rerun executes the recipe and returns the observation of the matching violation.
func rerun(v *Violation) (string, error) {
	var jr jobReplay
	if err := json.Unmarshal(v.Replay, &jr); err != nil || jr.Job == "" {
		return "", fmt.Errorf("violation has no replay recipe")
	}
	j := jobs[jr.Job]
	if j == nil {
		return "", fmt.Errorf("unknown job %q", jr.Job)
	}
	if pp := v.ProcessPrefix; pp != nil {
		pj := jobs[pp.Job]
		if pj == nil {
			return "", fmt.Errorf("unknown job %q", pp.Job)
		}
		for _, it := range pp.Items {
			pj(it) // what it reports was reported when it ran; here it only brings the process into the same state
		}
	}
	out, err := j(jr.Item)
	if err != nil {
		if strings.HasPrefix(v.Class, "work-item-fails-after-earlier-items:") {
			return "job error: " + err.Error(), nil
		}
		return "", err
	}
	b, _ := json.Marshal(out)
	var found []Violation
	var walk func(x any)
	walk = func(x any) {
		switch t := x.(type) {
		case []any:
			for _, e := range t {
				walk(e)
			}
		case map[string]any:
			if vs, ok := t["viols"]; ok && vs != nil {
				vb, _ := json.Marshal(vs)
				var l []Violation
				json.Unmarshal(vb, &l)
				found = append(found, l...)
			}
		}
	}
	var gen any
	json.Unmarshal(b, &gen)
	walk(gen)
	norm := func(c string) string { return strings.ReplaceAll(c, " ", "-") }
	for _, f := range found {
		if f.Clause == v.Clause && norm(f.Class) == v.Class && f.Probe == v.Probe {
			return f.Observed, nil
		}
	}
	for _, f := range found {
		if f.Clause == v.Clause && norm(f.Class) == v.Class {
			return f.Observed, nil
		}
	}
	// Data races: ThreadSanitizer reports one pair of accesses per memory location and suppresses pairs it has
	// printed before, so WHICH pair of a racy execution gets reported depends on the history of the process.
	// The execution is what is replayed; it reproduces when the same schedule is reported racy again.
	if strings.HasPrefix(v.Class, "race:") {
		for _, f := range found {
			if f.Clause == v.Clause && strings.HasPrefix(f.Class, "race:") {
				return v.Observed, nil
			}
		}
	}
	other := ""
	for _, f := range found {
		other += " [" + f.Clause + "/" + f.Class + ": " + f.Observed + "]"
	}
	if other != "" {
		other = "; other violations on this input:" + other
	}
	return "no violation of " + v.Clause + "/" + v.Class + " on this input" + other, nil
}

var checks = map[string]*Check{}

func Register(c *Check) { checks[c.ID] = c }

// RunCtx is handed to a property's Run function.
type RunCtx struct {
	ID       string
	Tier     string
	Seed     int64
	Workers  int
	Root     string // /verif
	Deadline time.Time
	start    time.Time

	mu         sync.Mutex
	viols      map[string]Violation // smallest per signature
	violCount  map[string]int
	Cov        map[string]any
	samples    []any
	Assume     []string
	exhaustive bool
	capped     []string
	outcomes   map[string]struct{}
	failed     string // harness failure → exit 2
	curPrefix  func() *ProcPrefix // set while the results of one work item are being handled
	hung       bool   // a work item did not return: the remaining items of all jobs are skipped
}

func (rc *RunCtx) Quick() bool { return rc.Tier != "thorough" }

// Report records a violation (deduplicated by signature, smallest witness kept).
func (rc *RunCtx) Report(v Violation) {
	rc.mu.Lock()
	defer rc.mu.Unlock()
	if v.Property == "" {
		v.Property = rc.ID
	}
	v.Class = strings.ReplaceAll(v.Class, " ", "-") // signatures are space-free (known_findings.txt is word-split)
	if v.Replay != nil && v.prefixFn == nil {
		v.prefixFn = rc.curPrefix
	}
	s := v.Sig()
	rc.violCount[s]++
	if old, ok := rc.viols[s]; !ok || v.size() < old.size() {
		rc.viols[s] = v
	}
}

func (rc *RunCtx) Sample(s any) {
	rc.mu.Lock()
	defer rc.mu.Unlock()
	if len(rc.samples) < 12 {
		rc.samples = append(rc.samples, s)
	}
}

// Outcome counts distinct observed outcomes (vacuity guard).
func (rc *RunCtx) Outcome(s string) {
	rc.mu.Lock()
	defer rc.mu.Unlock()
	if len(rc.outcomes) < 200000 {
		rc.outcomes[s] = struct{}{}
	}
}

func (rc *RunCtx) Add(key string, n int64) {
	rc.mu.Lock()
	defer rc.mu.Unlock()
	old, _ := rc.Cov[key].(int64)
	rc.Cov[key] = old + n
}

func (rc *RunCtx) Set(key string, v any) {
	rc.mu.Lock()
	defer rc.mu.Unlock()
	rc.Cov[key] = v
}

func (rc *RunCtx) Max(key string, n int64) {
	rc.mu.Lock()
	defer rc.mu.Unlock()
	old, _ := rc.Cov[key].(int64)
	if n > old {
		rc.Cov[key] = n
	}
}

// Capped marks the run as not exhaustive and says why.
func (rc *RunCtx) Capped(why string) {
	rc.mu.Lock()
	defer rc.mu.Unlock()
	rc.exhaustive = false
	rc.capped = append(rc.capped, why)
}

func (rc *RunCtx) Fail(format string, a ...any) {
	rc.mu.Lock()
	defer rc.mu.Unlock()
	if rc.failed == "" {
		rc.failed = fmt.Sprintf(format, a...)
	}
}

func (rc *RunCtx) Expired() bool { return time.Now().After(rc.Deadline) }

// ---- worker pool ----

type wireIn struct {
	Job  string          `json:"job"`
	Seq  int             `json:"seq"`
	Item json.RawMessage `json:"item"`
}

type wireOut struct {
	Seq int             `json:"seq"`
	Out json.RawMessage `json:"out,omitempty"`
	Err string          `json:"err,omitempty"`
}

// WorkerMain serves jobs on stdin/stdout until EOF.
func WorkerMain() {
	runtime.GOMAXPROCS(1)
	in := bufio.NewReaderSize(os.Stdin, 1<<20)
	out := bufio.NewWriterSize(os.Stdout, 1<<20)
	enc := json.NewEncoder(out)
	for {
		line, err := in.ReadBytes('\n')
		if len(line) > 0 {
			var w wireIn
			if e := json.Unmarshal(line, &w); e != nil {
				fmt.Fprintln(os.Stderr, "worker: bad input:", e)
				os.Exit(3)
			}
			j := jobs[w.Job]
			var o wireOut
			o.Seq = w.Seq
			if j == nil {
				o.Err = "unknown job " + w.Job
			} else {
				res, e := j(w.Item)
				if e != nil {
					o.Err = e.Error()
				} else {
					b, e2 := json.Marshal(res)
					if e2 != nil {
						o.Err = e2.Error()
					}
					o.Out = b
				}
			}
			enc.Encode(&o)
			out.Flush()
		}
		if err != nil {
			return
		}
	}
}

// ParMap runs job over items in worker subprocesses and calls handle for each
// result in item order (results are buffered and re-ordered). handle runs in
// the caller's goroutine.
func ParMap[I, O any](rc *RunCtx, job string, items []I, handle func(i int, in I, out O)) {
	parMap(rc, job, items, false, handle)
}

// ParMapFresh is ParMap with one brand-new worker process per item: the item
// is the first thing that process ever does (virgin process-wide state).
func ParMapFresh[I, O any](rc *RunCtx, job string, items []I, handle func(i int, in I, out O)) {
	parMap(rc, job, items, true, handle)
}

type workerProc struct {
	cmd    *exec.Cmd
	stdin  io.WriteCloser
	rd     *bufio.Reader
	enc    *json.Encoder
	errbuf tailBuf
}

func startWorker(w int) (*workerProc, error) {
	p := &workerProc{}
	p.cmd = exec.Command(os.Args[0], "--worker")
	p.cmd.Env = append(os.Environ(), "GOMAXPROCS=1", "VERIF_WORKER="+strconv.Itoa(w))
	p.stdin, _ = p.cmd.StdinPipe()
	stdout, _ := p.cmd.StdoutPipe()
	p.cmd.Stderr = &p.errbuf
	if err := p.cmd.Start(); err != nil {
		return nil, err
	}
	p.rd = bufio.NewReaderSize(stdout, 1<<20)
	p.enc = json.NewEncoder(p.stdin)
	return p, nil
}

func (p *workerProc) stop() {
	p.stdin.Close()
	io.Copy(io.Discard, p.rd)
	p.cmd.Wait()
}

func parMap[I, O any](rc *RunCtx, job string, items []I, fresh bool, handle func(i int, in I, out O)) {
	n := rc.Workers
	if n > len(items) {
		n = len(items)
	}
	if n == 0 {
		return
	}
	type res struct {
		seq int
		out O
	}
	// which items each worker process handled, in order (a violation that does not reproduce alone is replayed
	// after the items its process had handled before it)
	var lmu sync.Mutex
	var lists [][]int
	type lpos struct{ list, pos int }
	where := make([]lpos, len(items))
	prefixOf := func(i int) func() *ProcPrefix {
		return func() *ProcPrefix {
			lmu.Lock()
			defer lmu.Unlock()
			w := where[i]
			pp := &ProcPrefix{Job: job}
			pp.whole, _ = json.Marshal(items[i])
			for _, k := range lists[w.list][:w.pos] {
				b, _ := json.Marshal(items[k])
				pp.Items = append(pp.Items, b)
			}
			return pp
		}
	}
	results := make(chan res, 256)
	next := make(chan int, len(items))
	for i := range items {
		next <- i
	}
	close(next)
	var wg sync.WaitGroup
	for w := 0; w < n; w++ {
		wg.Add(1)
		go func(w int) {
			defer wg.Done()
			var p *workerProc
			mine := -1
			defer func() {
				if p != nil {
					p.stop()
				}
			}()
			for i := range next {
				if rc.failedNow() || rc.Expired() { // time budget: no new work items are started
					break
				}
				if p == nil {
					var err error
					if p, err = startWorker(w); err != nil {
						rc.Fail("cannot start worker: %v", err)
						return
					}
					lmu.Lock()
					lists = append(lists, nil)
					mine = len(lists) - 1
					lmu.Unlock()
				}
				lmu.Lock()
				where[i] = lpos{mine, len(lists[mine])}
				lists[mine] = append(lists[mine], i)
				lmu.Unlock()
				b, _ := json.Marshal(items[i])
				if err := p.enc.Encode(wireIn{Job: job, Seq: i, Item: b}); err != nil {
					rc.Fail("worker %d died before item %d of %s: %v\n%s", w, i, job, err, p.errbuf.String())
					break
				}
				line, err, timedOut := readLineTimeout(p, itemTimeout())
				if timedOut {
					// the implementation did not return: a liveness failure of the code under test (or of the
					// harness). Kill the worker, record it with a replayable item, go on with a new worker.
					p.cmd.Process.Kill()
					p.cmd.Wait()
					p = nil
					rc.Report(Violation{Property: rc.ID, Clause: rc.ID + ".terminates", Class: "hang:" + job, Probe: "work item " + trunc(string(b), 400),
						Observed: "no answer (worker killed)", Expected: "every operation of the router returns",
						Replay: ItemReplay(job, json.RawMessage(b))})
					rc.Capped(fmt.Sprintf("a work item of %s did not return within %s; the remaining work items were skipped", job, itemTimeout()))
					rc.mu.Lock()
					rc.hung = true
					rc.mu.Unlock()
					var zero O
					results <- res{i, zero}
					continue
				}
				if err != nil {
					p.cmd.Wait()
					rc.Fail("worker %d crashed on item %d of %s (%s): %v\n%s", w, i, job, trunc(string(b), 2000), err, p.errbuf.String())
					p = nil
					break
				}
				var o wireOut
				if e := json.Unmarshal(line, &o); e != nil {
					rc.Fail("worker %d: bad output: %v", w, e)
					break
				}
				if o.Err != "" {
					if pf := prefixOf(i); len(pf().Items) > 0 {
						// The same work item may well succeed first thing in a fresh process: then it is the earlier items
						// of this process that made it fail, which finish() establishes by replaying both ways.
						rc.Report(Violation{Property: rc.ID, Clause: rc.ID + ".process-state", Class: "work-item-fails-after-earlier-items:" + job, Probe: "work item " + trunc(string(b), 400),
							Observed: "job error: " + o.Err, Expected: "the work item runs as it does first thing in a fresh process: what an instance does never depends on what was done to other instances before it",
							Replay: ItemReplay(job, json.RawMessage(b)), prefixFn: pf})
						rc.Capped(fmt.Sprintf("a work item of %s failed in a process that had handled other items before; the remaining work items were skipped", job))
						rc.mu.Lock()
						rc.hung = true
						rc.mu.Unlock()
						var zero O
						results <- res{i, zero}
						continue
					}
					rc.Fail("job %s item %d: %s", job, i, o.Err)
					break
				}
				var out O
				if e := json.Unmarshal(o.Out, &out); e != nil {
					rc.Fail("job %s item %d: decode: %v", job, i, e)
					break
				}
				results <- res{i, out}
				if fresh {
					p.stop()
					p = nil
				}
			}
		}(w)
	}
	go func() { wg.Wait(); close(results) }()
	pending := map[int]O{}
	want := 0
	for r := range results {
		pending[r.seq] = r.out
		for {
			o, ok := pending[want]
			if !ok {
				break
			}
			delete(pending, want)
			rc.mu.Lock()
			rc.curPrefix = prefixOf(want)
			rc.mu.Unlock()
			handle(want, items[want], o)
			rc.mu.Lock()
			rc.curPrefix = nil
			rc.mu.Unlock()
			want++
		}
	}
	if want < len(items) && rc.Expired() && !rc.failedNow() {
		rc.Capped(fmt.Sprintf("time budget reached: %d of %d work items of %s were explored (in order), the rest was not started", want, len(items), job))
	}
}

// itemTimeout is the watchdog per work item (default 10 min; items normally take seconds).
func itemTimeout() time.Duration {
	if v, err := strconv.Atoi(os.Getenv("VERIF_ITEM_TIMEOUT_S")); err == nil && v > 0 {
		return time.Duration(v) * time.Second
	}
	return 10 * time.Minute
}

func readLineTimeout(p *workerProc, d time.Duration) (line []byte, err error, timedOut bool) {
	type rd struct {
		b []byte
		e error
	}
	ch := make(chan rd, 1)
	go func() {
		b, e := p.rd.ReadBytes('\n')
		ch <- rd{b, e}
	}()
	select {
	case r := <-ch:
		return r.b, r.e, false
	case <-time.After(d):
		return nil, nil, true
	}
}

func trunc(s string, n int) string {
	if len(s) > n {
		return s[:n] + "..."
	}
	return s
}

func (rc *RunCtx) failedNow() bool {
	rc.mu.Lock()
	defer rc.mu.Unlock()
	return rc.failed != "" || rc.hung
}

type tailBuf struct {
	mu sync.Mutex
	b  []byte
}

func (t *tailBuf) Write(p []byte) (int, error) {
	t.mu.Lock()
	defer t.mu.Unlock()
	t.b = append(t.b, p...)
	if len(t.b) > 16384 {
		t.b = t.b[len(t.b)-16384:]
	}
	return len(p), nil
}

func (t *tailBuf) String() string { t.mu.Lock(); defer t.mu.Unlock(); return string(t.b) }

// ---- main entry ----

// Main is the entry point of the check binary.
//
//	check --worker
//	check run <ID> <tier>
//	check replay <file>
func Main(root string) {
	if len(os.Args) >= 2 && os.Args[1] == "--worker" {
		WorkerMain()
		return
	}
	if len(os.Args) >= 3 && os.Args[1] == "replay" {
		os.Exit(replayFile(os.Args[2]))
	}
	if len(os.Args) >= 3 && os.Args[1] == "confirm" {
		// confirm <file>: re-execute a violation; exit 0 iff it reproduces
		// with the identical observation.
		os.Exit(confirmFile(os.Args[2]))
	}
	if len(os.Args) < 4 || os.Args[1] != "run" {
		fmt.Fprintln(os.Stderr, "usage: check run <ID> <quick|thorough> | check replay <file>")
		os.Exit(2)
	}
	id, tier := os.Args[2], os.Args[3]
	c := checks[id]
	if c == nil {
		fmt.Fprintln(os.Stderr, "unknown check", id)
		os.Exit(2)
	}
	seed, _ := strconv.ParseInt(os.Getenv("VERIF_SEED"), 10, 64)
	workers := runtime.NumCPU()
	if s := os.Getenv("VERIF_WORKERS"); s != "" {
		workers, _ = strconv.Atoi(s)
	}
	budget := 15 * time.Minute // the quick tiers take 1-60 s on an idle 16-core machine; the cap only matters on an overloaded one
	if tier == "thorough" {
		budget = 40 * time.Minute
	}
	if s := os.Getenv("VERIF_BUDGET_S"); s != "" {
		if n, e := strconv.Atoi(s); e == nil {
			budget = time.Duration(n) * time.Second
		}
	}
	rc := &RunCtx{ID: id, Tier: tier, Seed: seed, Workers: workers, Root: root,
		start: time.Now(), Deadline: time.Now().Add(budget),
		viols: map[string]Violation{}, violCount: map[string]int{}, Cov: map[string]any{},
		outcomes: map[string]struct{}{}, exhaustive: true}
	c.Run(rc)
	os.Exit(rc.finish(c))
}

// loadFindings reads /verif/known_findings.txt. Line formats:
//
//	open: property=<id> sig=<clause>|<class> :: <what fails>
//	fixed: property=<id> <commit> sig=<clause>|<class> :: <what failed>
//
// Only "open" lines suppress anything; "fixed" lines are documentation.
func loadFindings(root string) ([]Finding, error) {
	path := os.Getenv("VERIF_FINDINGS")
	if path == "" {
		path = filepath.Join(root, "known_findings.txt")
	}
	b, err := os.ReadFile(path)
	if err != nil {
		if os.IsNotExist(err) {
			return nil, nil
		}
		return nil, err
	}
	var out []Finding
	for _, line := range strings.Split(string(b), "\n") {
		line = strings.TrimSpace(line)
		if line == "" || strings.HasPrefix(line, "#") {
			continue
		}
		var f Finding
		switch {
		case strings.HasPrefix(line, "open:"):
			f.Status = "open"
		case strings.HasPrefix(line, "fixed:"):
			f.Status = "fixed"
		default:
			return nil, fmt.Errorf("known_findings.txt: unrecognised line %q", line)
		}
		head, desc, _ := strings.Cut(line, " :: ")
		f.Description = desc
		for _, w := range strings.Fields(head) {
			if v, ok := strings.CutPrefix(w, "property="); ok {
				f.Property = v
			}
			if v, ok := strings.CutPrefix(w, "sig="); ok {
				f.Clause, f.Class, _ = strings.Cut(v, "|")
			}
		}
		if f.Property == "" || (f.Status == "open" && f.Clause == "") {
			return nil, fmt.Errorf("known_findings.txt: incomplete line %q", line)
		}
		out = append(out, f)
	}
	return out, nil
}

func (rc *RunCtx) finish(c *Check) int {
	wall := time.Since(rc.start).Seconds()
	if rc.failed != "" && !rc.hung {
		fmt.Fprintf(os.Stderr, "HARNESS-FAILURE %s: %s\n", rc.ID, rc.failed)
		return 2
	}
	findings, err := loadFindings(rc.Root)
	if err != nil {
		fmt.Fprintln(os.Stderr, "HARNESS-FAILURE cannot read known_findings.json:", err)
		return 2
	}
	open := map[string]Finding{}
	for _, f := range findings {
		if f.Status == "open" {
			open[f.Property+"|"+f.Clause+"|"+f.Class] = f
		}
	}
	sigs := make([]string, 0, len(rc.viols))
	for s := range rc.viols {
		sigs = append(sigs, s)
	}
	sort.Strings(sigs)
	var known []string
	var fresh []Violation
	for _, s := range sigs {
		if f, ok := open[s]; ok {
			known = append(known, s)
			fmt.Printf("KNOWN-FINDING: property=%s %s [%s/%s] (%d occurrences this run)\n", f.Property, f.Description, f.Clause, f.Class, rc.violCount[s])
			delete(open, s)
			continue
		}
		fresh = append(fresh, rc.viols[s])
	}
	for s, f := range open {
		if f.Property == rc.ID {
			fmt.Fprintf(os.Stderr, "note: open finding %s did not occur in this run (stale entry, or outside this tier's bounds)\n", s)
		}
	}
	exit := 0
	var replayPaths []string
	for _, v := range fresh {
		p, err := writeReplay(rc.Root, v)
		if err != nil {
			fmt.Fprintln(os.Stderr, "HARNESS-FAILURE cannot write replay:", err)
			return 2
		}
		// confirm twice in a fresh process
		if v.Replay != nil {
			for k := 0; k < 2; k++ {
				cmd := exec.Command(os.Args[0], "confirm", p)
				cmd.Env = append(os.Environ(), "GOMAXPROCS=1")
				if strings.HasPrefix(v.Class, "hang:") {
					// reproduces iff the replay does not return either
					if err := cmd.Start(); err != nil {
						fmt.Fprintln(os.Stderr, "HARNESS-FAILURE cannot start confirmation:", err)
						return 2
					}
					done := make(chan error, 1)
					go func() { done <- cmd.Wait() }()
					select {
					case <-done:
						fmt.Fprintf(os.Stderr, "HARNESS-FAILURE %s: the work item that did not return during the run returns when replayed alone (overloaded machine?): %s\n", rc.ID, p)
						return 2
					case <-time.After(itemTimeout() / 4):
						cmd.Process.Kill()
						<-done
					}
					break // one confirmation is enough for a hang
				}
				out, err := cmd.CombinedOutput()
				if err != nil {
					// Not alone. After the work items its process had handled before it? (deterministic all the same:
					// a fresh process, the same items in the same order, twice)
					var pp *ProcPrefix
					if v.prefixFn != nil && v.ProcessPrefix == nil {
						pp = v.prefixFn()
					}
					whole := json.RawMessage(nil)
					if pp != nil {
						whole = ItemReplay(pp.Job, pp.whole)
					}
					switch {
					case pp != nil && string(whole) != string(v.Replay):
						// the recipe was narrowed to one probe of its work item: the whole item, as the worker ran it
						v.Replay = whole
						v.Note = "reproduces in a fresh process on the whole work item only, not on this probe alone: an instance of the code under test keeps state between one request and the next"
					case pp != nil && len(pp.Items) > 0:
						v.ProcessPrefix = pp
						v.Note = fmt.Sprintf("reproduces in a fresh process only after the %d work items the same process had handled before it (recorded in the replay file): the code under test carries state from one instance to the next", len(pp.Items))
					default:
						fmt.Fprintf(os.Stderr, "HARNESS-FAILURE %s: violation %s did not reproduce identically in a fresh process (nondeterministic?):\n%s\nrecord: %s\n", rc.ID, v.Sig(), out, p)
						return 2
					}
					if p, err = writeReplay(rc.Root, v); err != nil {
						fmt.Fprintln(os.Stderr, "HARNESS-FAILURE cannot write replay:", err)
						return 2
					}
					k = -1 // confirm the longer recipe twice
					continue
				} else if strings.HasPrefix(v.Class, "work-item-fails-after-earlier-items:") && v.ProcessPrefix == nil {
					// the item fails first thing in a fresh process too: that is not what this class claims
					fmt.Fprintf(os.Stderr, "HARNESS-FAILURE %s: %s: %s\nrecord: %s\n", rc.ID, v.Probe, v.Observed, p)
					return 2
				}
			}
		}
		replayPaths = append(replayPaths, p)
		fmt.Printf("VIOLATION property=%s replay=%s\n", v.Property, p)
		fmt.Printf("  clause=%s class=%s (%d occurrences)\n  config=%s\n  history=%s\n  probe=%s\n  observed=%s\n  expected=%s\n", v.Clause, v.Class, rc.violCount[v.Sig()], v.Config, strings.Join(v.History, " ; "), v.Probe, v.Observed, v.Expected)
		if v.Note != "" {
			fmt.Printf("  note=%s\n", v.Note)
		}
		exit = 1
	}
	// evidence
	cov := rc.Cov
	for k, v := range cov {
		if n, ok := v.(int64); ok {
			cov[k] = n
		}
	}
	if _, ok := cov["states"]; !ok {
		cov["states"] = int64(0)
	}
	if _, ok := cov["transitions"]; !ok {
		cov["transitions"] = int64(0)
	}
	if _, ok := cov["traces_validated_against_impl"]; !ok {
		cov["traces_validated_against_impl"] = cov["transitions"]
	}
	if rc.samples == nil {
		rc.samples = []any{}
	}
	cov["samples"] = rc.samples
	cov["exhaustive"] = rc.exhaustive
	if len(rc.capped) > 0 {
		cov["caps_hit"] = rc.capped
	}
	cov["distinct_outcomes"] = len(rc.outcomes)
	cov["known_findings_hit"] = known
	cov["workers"] = rc.Workers
	ev := map[string]any{
		"property_id": rc.ID,
		"tier":        rc.Tier,
		"seed":        rc.Seed,
		"level":       "model_checking",
		"coverage":    cov,
		"assumptions": rc.Assume,
		"wall_s":      wall,
		"violations":  len(fresh),
	}
	if len(replayPaths) > 0 {
		ev["replays"] = replayPaths
	}
	b, _ := json.MarshalIndent(ev, "", " ")
	os.MkdirAll(filepath.Join(rc.Root, "evidence"), 0o755)
	if err := os.WriteFile(filepath.Join(rc.Root, "evidence", rc.ID+".json"), append(b, '\n'), 0o644); err != nil {
		fmt.Fprintln(os.Stderr, "HARNESS-FAILURE cannot write evidence:", err)
		return 2
	}
	fmt.Printf("%s %s: states=%v transitions=%v probes=%v outcomes=%d exhaustive=%v known=%d violations=%d wall=%.1fs\n",
		rc.ID, rc.Tier, cov["states"], cov["transitions"], cov["probes"], len(rc.outcomes), rc.exhaustive, len(known), len(fresh), wall)
	return exit
}

func writeReplay(root string, v Violation) (string, error) {
	b, _ := json.MarshalIndent(v, "", " ")
	h := sha256.Sum256([]byte(v.Sig()))
	p := filepath.Join(root, "replay", v.Property+"-"+hex.EncodeToString(h[:5])+".json")
	os.MkdirAll(filepath.Dir(p), 0o755)
	return p, os.WriteFile(p, append(b, '\n'), 0o644)
}

func readReplay(path string) (*Violation, error) {
	b, err := os.ReadFile(path)
	if err != nil {
		return nil, err
	}
	var v Violation
	if err := json.Unmarshal(b, &v); err != nil {
		return nil, err
	}
	return &v, nil
}

func replayFile(path string) int {
	v, err := readReplay(path)
	if err != nil {
		fmt.Fprintln(os.Stderr, err)
		return 2
	}
	obs, err := rerun(v)
	if err != nil {
		fmt.Fprintln(os.Stderr, "replay error:", err)
		return 2
	}
	fmt.Printf("property=%s clause=%s class=%s\nconfig=%s\nhistory=%s\nprobe=%s\nobserved now : %s\nrecorded     : %s\nexpected     : %s\n", v.Property, v.Clause, v.Class, v.Config, strings.Join(v.History, " ; "), v.Probe, obs, v.Observed, v.Expected)
	if obs == v.Observed {
		fmt.Println("=> violation reproduces")
		return 1
	}
	fmt.Println("=> observation differs from the recorded violation")
	return 0
}

func confirmFile(path string) int {
	v, err := readReplay(path)
	if err != nil {
		fmt.Fprintln(os.Stderr, err)
		return 2
	}
	obs, err := rerun(v)
	if err != nil {
		fmt.Fprintln(os.Stderr, "replay error:", err)
		return 2
	}
	if obs != v.Observed {
		fmt.Printf("observed now: %s\nrecorded    : %s\n", obs, v.Observed)
		return 1
	}
	return 0
}
