// Package explore holds the engines: reflective canonical state key, the
// worker pool, the BFS over operation histories, string enumerators, and the
// violation / evidence plumbing.
package explore

import (
	"crypto/sha256"
	"encoding/hex"
	"fmt"
	"reflect"
	"regexp"
	"sort"
	"strings"
)

var regexpType = reflect.TypeOf((*regexp.Regexp)(nil))

// Dump renders the object graph reachable from v canonically: structs field by
// field, slices in order, maps sorted by key, pointers numbered in order of
// first visit, *regexp.Regexp by its source, funcs and locks skipped. It never
// calls Interface() on unexported data, so it works on mux's private state.
func Dump(vs ...any) string {
	d := &dumper{seen: map[uintptr]int{}}
	for _, v := range vs {
		d.val(reflect.ValueOf(v))
		d.b.WriteByte('\n')
	}
	return d.b.String()
}

// Key is the hash of Dump.
func Key(vs ...any) string {
	h := sha256.Sum256([]byte(Dump(vs...)))
	return hex.EncodeToString(h[:12])
}

type dumper struct {
	b    strings.Builder
	seen map[uintptr]int
}

func (d *dumper) val(v reflect.Value) {
	if !v.IsValid() {
		d.b.WriteString("nil")
		return
	}
	switch v.Kind() {
	case reflect.Bool:
		fmt.Fprintf(&d.b, "%v", v.Bool())
	case reflect.Int, reflect.Int8, reflect.Int16, reflect.Int32, reflect.Int64:
		fmt.Fprintf(&d.b, "%d", v.Int())
	case reflect.Uint, reflect.Uint8, reflect.Uint16, reflect.Uint32, reflect.Uint64, reflect.Uintptr:
		fmt.Fprintf(&d.b, "%d", v.Uint())
	case reflect.Float32, reflect.Float64:
		fmt.Fprintf(&d.b, "%v", v.Float())
	case reflect.String:
		fmt.Fprintf(&d.b, "%q", v.String())
	case reflect.Func, reflect.Chan, reflect.UnsafePointer:
		d.b.WriteString("_")
	case reflect.Interface:
		if v.IsNil() {
			d.b.WriteString("nil")
			return
		}
		d.val(v.Elem())
	case reflect.Ptr:
		if v.IsNil() {
			d.b.WriteString("nil")
			return
		}
		if v.Type() == regexpType {
			// String() is a method on the pointer; reading the unexported
			// field `expr` directly keeps us clear of Interface().
			e := v.Elem().FieldByName("expr")
			fmt.Fprintf(&d.b, "re(%q)", e.String())
			return
		}
		tn := v.Type().String()
		if strings.Contains(tn, "sync.") {
			d.b.WriteString("lock")
			return
		}
		p := v.Pointer()
		if id, ok := d.seen[p]; ok {
			fmt.Fprintf(&d.b, "^%d", id)
			return
		}
		id := len(d.seen) + 1
		d.seen[p] = id
		fmt.Fprintf(&d.b, "&%d", id)
		d.val(v.Elem())
	case reflect.Struct:
		tn := v.Type().String()
		if strings.HasPrefix(tn, "sync.") || strings.Contains(tn, "vsync.") {
			d.b.WriteString("lock")
			return
		}
		d.b.WriteString(shortType(tn))
		d.b.WriteByte('{')
		for i := 0; i < v.NumField(); i++ {
			if i > 0 {
				d.b.WriteByte(' ')
			}
			d.b.WriteString(v.Type().Field(i).Name)
			d.b.WriteByte(':')
			d.val(v.Field(i))
		}
		d.b.WriteByte('}')
	case reflect.Slice:
		if v.IsNil() {
			d.b.WriteString("nil")
			return
		}
		fallthrough
	case reflect.Array:
		d.b.WriteByte('[')
		for i := 0; i < v.Len(); i++ {
			if i > 0 {
				d.b.WriteByte(' ')
			}
			d.val(v.Index(i))
		}
		d.b.WriteByte(']')
	case reflect.Map:
		if v.IsNil() {
			d.b.WriteString("nil")
			return
		}
		keys := v.MapKeys()
		sort.Slice(keys, func(i, j int) bool { return keyLess(keys[i], keys[j]) })
		d.b.WriteString("map[")
		for i, k := range keys {
			if i > 0 {
				d.b.WriteByte(' ')
			}
			d.val(k)
			d.b.WriteByte(':')
			d.val(v.MapIndex(k))
		}
		d.b.WriteByte(']')
	default:
		fmt.Fprintf(&d.b, "?%s", v.Kind())
	}
}

func keyLess(a, b reflect.Value) bool {
	switch a.Kind() {
	case reflect.String:
		return a.String() < b.String()
	case reflect.Int, reflect.Int8, reflect.Int16, reflect.Int32, reflect.Int64:
		return a.Int() < b.Int()
	case reflect.Uint, reflect.Uint8, reflect.Uint16, reflect.Uint32, reflect.Uint64:
		return a.Uint() < b.Uint()
	}
	return fmt.Sprint(a) < fmt.Sprint(b)
}

func shortType(s string) string {
	if i := strings.IndexByte(s, '['); i > 0 {
		s = s[:i]
	}
	if i := strings.LastIndexByte(s, '.'); i >= 0 {
		s = s[i+1:]
	}
	return s
}
