package explore

import (
	"fmt"
	"runtime"
	"sync"
)

// Engine C: a cooperative scheduler for harness threads whose hand-off is
// invisible to the race detector. All scheduler state that several threads
// touch lives in fixed-size arrays and is only accessed inside //go:norace
// functions (no maps, no append: the runtime's map and growslice helpers carry
// their own race annotations). The only happens-before edges ThreadSanitizer
// sees are the ones the code under test creates itself.

// operations (must match _shim/vsync)
const (
	OpLockAnnounce = iota + 1
	OpLockAcquire
	OpUnlock
	OpRLock
	OpRUnlock
	OpPoolGet
	OpPoolPut
	OpStart // thread is about to run its first instruction
	OpYield // harness-level point (between operations, handler entry/exit)
	OpDone  // thread finished
)

const (
	maxThreads = 4
	maxPoints  = 4096
	maxLocks   = 8
)

// PointRec is one recorded scheduling decision.
type PointRec struct {
	Enabled        [maxThreads]int8
	N              int8 // number of enabled threads
	Chosen         int8 // index into Enabled
	Running        int8 // thread that reached the point
	RunningEnabled bool
}

type lockState struct {
	obj     uintptr
	writer  int8 // holder, -1 none
	readers int8
	waiting int8 // announced writers
}

// Sched controls one execution.
type Sched struct {
	n       int
	cur     int // running thread; -1 = controller (main)
	pending [maxThreads]int
	pobj    [maxThreads]uintptr
	done    [maxThreads]bool
	locks   [maxLocks]lockState
	nlocks  int

	prefix  []int
	points  [maxPoints]PointRec
	npoints int
	steps   int

	abort    bool
	Deadlock bool
	Horizon  bool
	Diverged string

	// per-thread step stamps for real-time order: filled by Stamp
	wg sync.WaitGroup
}

type abortSentinel struct{}

// NewSched prepares an execution that replays prefix and then always takes choice 0.
func NewSched(n int, prefix []int) *Sched {
	s := &Sched{n: n, cur: -1, prefix: prefix}
	for i := range s.locks {
		s.locks[i].writer = -1
	}
	return s
}

//go:norace
func (s *Sched) lock(obj uintptr) *lockState {
	for i := 0; i < s.nlocks; i++ {
		if s.locks[i].obj == obj {
			return &s.locks[i]
		}
	}
	if s.nlocks == maxLocks {
		panic("sched: too many locks")
	}
	l := &s.locks[s.nlocks]
	l.obj, l.writer, l.readers, l.waiting = obj, -1, 0, 0
	s.nlocks++
	return l
}

//go:norace
func (s *Sched) enabled(t int) bool {
	if s.done[t] {
		return false
	}
	switch s.pending[t] {
	case OpLockAcquire:
		l := s.lock(s.pobj[t])
		return l.writer < 0 && l.readers == 0
	case OpRLock:
		l := s.lock(s.pobj[t])
		return l.writer < 0 && l.waiting == 0
	}
	return true
}

// commit applies the effect of t's pending operation to the shadow state; it
// runs when t is allowed to proceed past its point.
//
//go:norace
func (s *Sched) commit(t int) {
	switch s.pending[t] {
	case OpLockAnnounce:
		s.lock(s.pobj[t]).waiting++
	case OpLockAcquire:
		l := s.lock(s.pobj[t])
		l.waiting--
		l.writer = int8(t)
	case OpRLock:
		s.lock(s.pobj[t]).readers++
	}
	s.pending[t] = 0
}

// Step counter (logical time) for real-time ordering of calls.
//
//go:norace
func (s *Sched) Now() int { return s.steps }

// Hook is given to the shim: called by the running thread at every
// synchronisation operation.
//
//go:norace
func (s *Sched) Hook(op int, obj uintptr) {
	if s.abort {
		return
	}
	t := s.cur
	if t < 0 {
		return // controller context (sequential setup)
	}
	switch op {
	case OpUnlock:
		s.lock(obj).writer = -1
		op = OpYield
	case OpRUnlock:
		s.lock(obj).readers--
		op = OpYield
	}
	s.point(t, op, obj)
}

// Yield is a harness-level scheduling point.
//
//go:norace
func (s *Sched) Yield() {
	if s.abort || s.cur < 0 {
		return
	}
	s.point(s.cur, OpYield, 0)
}

//go:norace
func (s *Sched) point(t int, op int, obj uintptr) {
	s.pending[t] = op
	s.pobj[t] = obj
	s.decide(t)
	// wait for our turn
	for s.cur != t {
		if s.abort {
			panic(abortSentinel{})
		}
		runtime.Gosched()
	}
	s.commit(t)
}

// decide picks the next thread. t is the thread that reached the point (or
// finished).
//
//go:norace
func (s *Sched) decide(t int) {
	s.steps++
	if s.npoints >= maxPoints-1 {
		s.Horizon = true
		s.abort = true
		s.cur = -2
		panic(abortSentinel{})
	}
	p := &s.points[s.npoints]
	p.Running = int8(t)
	p.N = 0
	p.RunningEnabled = s.enabled(t)
	if p.RunningEnabled {
		p.Enabled[p.N] = int8(t)
		p.N++
	}
	for i := 0; i < s.n; i++ {
		if i != t && s.enabled(i) {
			p.Enabled[p.N] = int8(i)
			p.N++
		}
	}
	if p.N == 0 {
		all := true
		for i := 0; i < s.n; i++ {
			if !s.done[i] {
				all = false
			}
		}
		if all {
			s.cur = -1 // everything finished
			return
		}
		s.Deadlock = true
		s.abort = true
		s.npoints++
		s.cur = -2
		panic(abortSentinel{})
	}
	c := 0
	if s.npoints < len(s.prefix) {
		c = s.prefix[s.npoints]
		if c >= int(p.N) {
			s.Diverged = fmt.Sprintf("replay diverged at point %d: choice %d of %d enabled", s.npoints, c, p.N)
			s.abort = true
			s.cur = -2
			panic(abortSentinel{})
		}
	}
	p.Chosen = int8(c)
	s.npoints++
	s.cur = int(p.Enabled[c])
}

// Run executes the thread bodies under the scheduler and returns when all of
// them finished (or the execution was aborted).
func (s *Sched) Run(bodies []func()) {
	s.wg.Add(len(bodies))
	for i := range bodies {
		s.pending[i] = OpStart
	}
	for i, b := range bodies {
		go s.thread(i, b)
	}
	s.start()
	s.wg.Wait()
}

//go:norace
func (s *Sched) start() {
	// the controller makes the first decision on behalf of "nobody"
	s.steps++
	p := &s.points[s.npoints]
	p.Running = -1
	p.N = 0
	for i := 0; i < s.n; i++ {
		p.Enabled[p.N] = int8(i)
		p.N++
	}
	c := 0
	if s.npoints < len(s.prefix) {
		c = s.prefix[s.npoints]
		if c >= int(p.N) {
			c = 0
			s.Diverged = "replay diverged at the first point"
		}
	}
	p.Chosen = int8(c)
	s.npoints++
	s.cur = int(p.Enabled[c])
}

func (s *Sched) thread(i int, body func()) {
	defer s.wg.Done()
	defer func() {
		if e := recover(); e != nil {
			if _, ok := e.(abortSentinel); ok {
				return
			}
			s.threadPanic(i, e)
		}
	}()
	s.waitTurn(i)
	body()
	s.finish(i)
}

//go:norace
func (s *Sched) waitTurn(i int) {
	for s.cur != i {
		if s.abort {
			panic(abortSentinel{})
		}
		runtime.Gosched()
	}
	s.commit(i)
}

//go:norace
func (s *Sched) finish(i int) {
	s.done[i] = true
	s.pending[i] = OpDone
	defer func() {
		if e := recover(); e != nil {
			if _, ok := e.(abortSentinel); !ok {
				panic(e)
			}
		}
	}()
	s.decide(i)
}

// ThreadPanics records panics that escaped thread bodies.
var threadPanics [maxThreads]any

//go:norace
func (s *Sched) threadPanic(i int, e any) {
	threadPanics[i] = e
	// let the others continue: this thread is done
	s.done[i] = true
	s.pending[i] = OpDone
	defer func() { recover() }()
	s.decide(i)
}

// TakePanic returns and clears the panic of thread i.
//
//go:norace
func TakePanic(i int) any {
	e := threadPanics[i]
	threadPanics[i] = nil
	return e
}

// Points returns the recorded decisions (controller context, after Run).
func (s *Sched) Points() []PointRec { return s.points[:s.npoints] }

// ---- DFS with iterative preemption bounding ----

// ExecResult is what a scenario's run function returns for one execution.
type ExecResult struct {
	Viols   []Violation
	Outcome string
}

// Explore enumerates all schedules of a scenario up to the preemption bound.
// run must build a fresh instance, execute under NewSched(n, prefix) and check
// its oracle. It returns executions run, and the first violation found.
func Explore(n int, bound int, maxExec int64, run func(s *Sched) ExecResult, onExec func(s *Sched, r ExecResult)) (execs int64, capped bool) {
	var rec func(prefix []int) bool
	rec = func(prefix []int) bool {
		if maxExec > 0 && execs >= maxExec {
			capped = true
			return false
		}
		s := NewSched(n, prefix)
		r := run(s)
		execs++
		onExec(s, r)
		if len(r.Viols) > 0 {
			return false
		}
		pts := s.Points()
		// preemptions used before each point
		cost := 0
		costs := make([]int, len(pts))
		for i, p := range pts {
			costs[i] = cost
			if p.RunningEnabled && p.Chosen != 0 {
				cost++
			}
		}
		for i := len(prefix); i < len(pts); i++ {
			p := pts[i]
			c := costs[i]
			if p.RunningEnabled {
				c++ // any alternative switches away from a runnable thread
			}
			if c > bound {
				continue
			}
			for alt := 1; alt < int(p.N); alt++ {
				np := make([]int, i+1)
				for k := 0; k < i; k++ {
					np[k] = int(pts[k].Chosen)
				}
				np[i] = alt
				if !rec(np) {
					return false
				}
			}
		}
		return true
	}
	rec(nil)
	return
}

// ScheduleString renders the decisions compactly: thread ids in order of running.
func ScheduleString(pts []PointRec) string {
	b := make([]byte, 0, len(pts))
	for _, p := range pts {
		b = append(b, byte('0'+p.Enabled[p.Chosen]))
	}
	return string(b)
}

// Choices extracts the choice sequence of an execution.
func Choices(pts []PointRec) []int {
	c := make([]int, len(pts))
	for i, p := range pts {
		c[i] = int(p.Chosen)
	}
	return c
}
