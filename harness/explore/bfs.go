package explore

import (
	"encoding/json"
	"fmt"
)

// ExpandIn is the work item of a BFS expansion job: apply every enabled
// operation after History (op indices into the property's alphabet) on a fresh
// implementation instance, check each successor state, return its key.
// When History is empty the job also returns a Child with Op = -1 for the
// initial state itself.
type ExpandIn struct {
	Cfg     json.RawMessage `json:"cfg"`
	History []int           `json:"h"`
	Only    *int            `json:"only,omitempty"` // replay: expand just this op (-1 = the initial state)
}

// Want reports whether op k is to be expanded for this item.
func (in *ExpandIn) Want(k int) bool { return in.Only == nil || *in.Only == k }

// Child is the result of applying one operation.
type Child struct {
	Op       int         `json:"op"`
	Key      string      `json:"key"`
	Viols    []Violation `json:"viols,omitempty"`
	Probes   int64       `json:"probes"`
	Outcomes []string    `json:"outcomes,omitempty"`
	Sample   any         `json:"sample,omitempty"`
	NoExpand bool        `json:"noexpand,omitempty"` // e.g. table-size cap reached
}

// BFS runs a level-synchronous breadth-first search over histories of length
// ≤ depth with (optional) global dedup on the canonical key. job must be
// registered and map ExpandIn → []Child. Every successor is checked; only
// successors with an unseen key are expanded further.
func BFS(rc *RunCtx, job string, cfg any, depth int, dedup bool, label string) {
	cfgRaw, _ := json.Marshal(cfg)
	seen := map[string]struct{}{}
	frontier := []ExpandIn{{Cfg: cfgRaw}}
	for level := 0; level < depth && len(frontier) > 0; level++ {
		if rc.Expired() {
			rc.Capped(fmt.Sprintf("%s: time budget reached; histories of length <= %d fully covered, wanted %d", label, level, depth))
			break
		}
		var next []ExpandIn
		ParMap(rc, job, frontier, func(i int, in ExpandIn, kids []Child) {
			for _, c := range kids {
				if c.Op >= 0 {
					rc.Add("transitions", 1)
				}
				rc.Add("probes", c.Probes)
				for _, v := range c.Viols {
					op := c.Op
					v.Replay = ItemReplay(job, ExpandIn{Cfg: cfgRaw, History: in.History, Only: &op})
					rc.Report(v)
				}
				for _, o := range c.Outcomes {
					rc.Outcome(o)
				}
				if c.Sample != nil {
					rc.Sample(c.Sample)
				}
				if _, ok := seen[c.Key]; ok && dedup {
					continue
				}
				seen[c.Key] = struct{}{}
				rc.Add("states", 1)
				if c.NoExpand || c.Op < 0 {
					continue
				}
				h := append(append([]int{}, in.History...), c.Op)
				next = append(next, ExpandIn{Cfg: cfgRaw, History: h})
			}
		})
		if rc.failedNow() {
			return
		}
		rc.Max("max_depth", int64(level+1))
		frontier = next
	}
}
