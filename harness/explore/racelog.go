package explore

import (
	"fmt"
	"os"
	"path/filepath"
	"regexp"
	"sort"
	"strings"
)

// RaceLog reads the race detector's log (GORACE=log_path=<prefix>) of this
// process incrementally.
type RaceLog struct {
	path string
	off  int64
}

func NewRaceLog() *RaceLog {
	prefix := ""
	for _, kv := range strings.Fields(os.Getenv("GORACE")) {
		if v, ok := strings.CutPrefix(kv, "log_path="); ok {
			prefix = v
		}
	}
	if prefix == "" {
		return &RaceLog{}
	}
	return &RaceLog{path: fmt.Sprintf("%s.%d", prefix, os.Getpid())}
}

// Next returns the text appended since the last call.
func (l *RaceLog) Next() string {
	if l.path == "" {
		return ""
	}
	f, err := os.Open(l.path)
	if err != nil {
		// some runtimes append the pid differently
		m, _ := filepath.Glob(l.path + "*")
		if len(m) == 0 {
			return ""
		}
		f, err = os.Open(m[0])
		if err != nil {
			return ""
		}
	}
	defer f.Close()
	st, _ := f.Stat()
	if st.Size() <= l.off {
		return ""
	}
	b := make([]byte, st.Size()-l.off)
	f.ReadAt(b, l.off)
	l.off = st.Size()
	return string(b)
}

var frameRe = regexp.MustCompile(`(?m)^  (github\.com/issue9/mux/v9\S*)\(\)\s*$`)

// RaceClasses splits the new log text into reports and classifies each.
func RaceClasses(text string) (classes []string, first string) {
	seen := map[string]bool{}
	for _, rep := range strings.Split(text, "WARNING: DATA RACE") {
		if !strings.Contains(rep, " at 0x") {
			continue
		}
		c, sum := RaceClass(rep)
		if first == "" {
			first = sum
		}
		if !seen[c] {
			seen[c] = true
			classes = append(classes, c)
		}
	}
	sort.Strings(classes)
	return
}

// RaceClass reduces a race report to the top mux frames of its two access
// stacks: "pkg.func<->pkg.func" (sorted, no line numbers), so that a recorded
// race and a new one are told apart.
func RaceClass(report string) (class string, summary string) {
	// split into stacks: sections start with "Read at", "Write at", "Previous read at", "Previous write at"
	secRe := regexp.MustCompile(`(?m)^(Read at|Write at|Previous read at|Previous write at|Atomic [a-z]+ at|Previous atomic [a-z]+ at)`)
	idx := secRe.FindAllStringIndex(report, -1)
	var tops []string
	for i, loc := range idx {
		if i >= 2 {
			break
		}
		end := len(report)
		if i+1 < len(idx) {
			end = idx[i+1][0]
		}
		sec := report[loc[0]:end]
		if g := strings.Index(sec, "\nGoroutine "); g >= 0 {
			sec = sec[:g]
		}
		kind := "read"
		if strings.Contains(strings.ToLower(sec[:20]), "write") {
			kind = "write"
		}
		top := "?"
		if m := frameRe.FindStringSubmatch(sec); m != nil {
			top = strings.TrimPrefix(m[1], "github.com/issue9/mux/v9/")
			top = strings.TrimPrefix(top, "github.com/issue9/mux/v9.")
			top = regexp.MustCompile(`\[[^\]]*\]`).ReplaceAllString(top, "")
		}
		tops = append(tops, kind+":"+top)
	}
	sort.Strings(tops)
	class = strings.Join(tops, "<->")
	lines := strings.Split(report, "\n")
	if len(lines) > 40 {
		lines = lines[:40]
	}
	return class, strings.Join(lines, "\n")
}
