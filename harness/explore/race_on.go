//go:build race

package explore

import "runtime"

// RaceEnabled reports whether the binary runs under the race detector.
const RaceEnabled = true

// RaceErrors is the number of race reports so far in this process.
func RaceErrors() int { return runtime.RaceErrors() }
