//go:build !race

package explore

const RaceEnabled = false

func RaceErrors() int { return 0 }
