#!/bin/bash
# Re-expresses archived seed patches that no longer apply to /repo HEAD: the patch is committed on top of the commit it
# was confirmed at and cherry-picked onto HEAD (a 3-way merge that knows the history, unlike fuzzy patching).
# Prints one line per seed; a re-expressed patch still has to be re-confirmed with seedtest.sh.
export GOFLAGS=-mod=mod GOPROXY=off GOSUMDB=off GOTOOLCHAIN=local
cd /verif
W=/tmp/rebaseW.$$
for d in seeded/C*/; do
  n=$(basename $d)
  git -C /repo worktree remove --force $W >/dev/null 2>&1
  git -C /repo worktree add --detach $W HEAD >/dev/null 2>&1 || { echo "$n ERROR worktree"; continue; }
  if git -C $W apply --check /verif/$d/patch.diff 2>/dev/null; then git -C /repo worktree remove --force $W; continue; fi
  if grep -q '"status_on_current_tree": "superseded' $d/meta.json; then echo "$n superseded (left as it is)"; git -C /repo worktree remove --force $W; continue; fi
  base=$(python3 -c "import json;print(json.load(open('/verif/$d/meta.json'))['repo_commit_when_confirmed'])")
  ok=""
  for cand in $base $(git -C /repo log --format=%h $base..HEAD | tac); do
    git -C $W checkout -q --detach $cand 2>/dev/null || continue
    for p in patch.orig.diff patch.diff; do
      [ -f /verif/$d/$p ] || continue
      if git -C $W apply /verif/$d/$p 2>/dev/null; then ok=$cand; break 2; fi
    done
  done
  if [ -z "$ok" ]; then echo "$n STALE (applies to no commit since $base)"; git -C /repo worktree remove --force $W; continue; fi
  git -C $W -c user.name=x -c user.email=x@x commit -qam seed
  c=$(git -C $W rev-parse HEAD)
  git -C $W checkout -q --detach $(git -C /repo rev-parse HEAD)
  if git -C $W -c user.name=x -c user.email=x@x cherry-pick $c >/dev/null 2>&1 && (cd $W && go build ./... 2>/dev/null); then
    [ -f /verif/$d/patch.orig.diff ] || cp /verif/$d/patch.diff /verif/$d/patch.orig.diff
    git -C $W diff HEAD~1 HEAD > /verif/$d/patch.diff
    echo "$n REBASED (from $ok)"
  else
    git -C $W cherry-pick --abort >/dev/null 2>&1
    echo "$n CONFLICT (from $ok)"
  fi
  git -C /repo worktree remove --force $W
done
git -C /repo worktree prune
