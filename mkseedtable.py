#!/usr/bin/env python3
"""Regenerates the seeded-change table of DESIGN.md section 8 from seeded/*/meta.json."""
import json, glob, os, re
rows=[]
for d in sorted(glob.glob('/verif/seeded/C*')):
    m=json.load(open(d+'/meta.json'))
    rows.append((os.path.basename(d), m['breaks_property'], m['needs_to_manifest'].replace('|','\\|'), m['detected_by'].replace('|','\\|')))
t='| seed | property | needs, to manifest | detected by |\n|---|---|---|---|\n'+''.join('| %s | %s | %s | %s |\n'%r for r in rows)
s=open('/verif/DESIGN.md').read()
s=re.sub(r'<!-- SEEDTABLE:BEGIN -->.*<!-- SEEDTABLE:END -->','<!-- SEEDTABLE:BEGIN -->\n'+t.replace('\\','\\\\')+'<!-- SEEDTABLE:END -->',s,flags=re.S)
open('/verif/DESIGN.md','w').write(s)
print(len(rows),'seeds')
