#!/bin/bash
# usage: trymut.sh <check-id> <file> <python-replace-old> <new>   (applies, runs suite + check quick, reverts)
id=$1; f=$2; old=$3; new=$4
cd /repo || exit 2
git diff --quiet || { echo "repo dirty"; exit 2; }
python3 - "$f" "$old" "$new" <<'PY'
import sys
f,old,new=sys.argv[1:4]
s=open(f).read()
assert old in s, "pattern not found"
open(f,'w').write(s.replace(old,new,1))
PY
[ $? -eq 0 ] || { git checkout -- .; exit 2; }
export GOFLAGS=-mod=mod GOPROXY=off GOSUMDB=off GOTOOLCHAIN=local
if go build ./... 2>/dev/null && go test -vet=off -count=1 ./... >/tmp/trymut.suite 2>&1; then echo "suite: PASS"; else echo "suite: FAIL (mutant visible to tests)"; grep -m3 -E 'FAIL|---' /tmp/trymut.suite; fi
cd /verif && ./verif $id quick 2>&1 | grep -E '^VIOLATION|clause=|^C[0-9]+ quick|HARNESS' | head -8
git -C /repo checkout -- .
