#!/bin/bash
# runs every check (tier $1, default quick) on the current /repo tree, validates MANIFEST and evidence
tier=${1:-quick}
cd /verif
git -C /repo diff --quiet || { echo "WARNING: /repo has uncommitted changes"; }
for id in $(python3 -c "import json;print(' '.join(c['property_id'] for c in json.load(open('MANIFEST.json'))['checks']))"); do
  s=$(date +%s); out=$(./verif $id $tier 2>&1); rc=$?
  echo "$id exit=$rc $(( $(date +%s)-s ))s $(echo "$out" | grep -E "^$id $tier:" | cut -c1-150)"
  [ $rc -ne 0 ] && echo "$out" | grep -E 'VIOLATION|HARNESS|clause=' | head -5
  echo "$out" | grep KNOWN-FINDING | cut -c1-160
done
python3-vt - <<'PY'
import json,glob,jsonschema
jsonschema.validate(json.load(open('/verif/MANIFEST.json')), json.load(open('/root/.vp/MANIFEST.schema.json')))
sch=json.load(open('/root/.vp/EVIDENCE.schema.json'))
bad=0
for f in sorted(glob.glob('/verif/evidence/*.json')):
    try: jsonschema.validate(json.load(open(f)),sch)
    except Exception as ex: bad+=1; print('INVALID',f,str(ex)[:100])
print('manifest ok; evidence files invalid:',bad)
PY
