#!/bin/bash
# usage: archive_seed.sh <src-dir> <name> <property> "<needs>" "<caught-by text>"
src=$1; name=$2; prop=$3; needs=$4; caught=$5
dst=/verif/seeded/$name
mkdir -p $dst
cp $src/patch.diff $dst/patch.diff
cp $src/demo_test.go $dst/demo_test.go
[ -f $src/notes.md ] && cp $src/notes.md $dst/notes.md
python3 - "$dst" "$prop" "$needs" "$caught" <<'PY'
import json,sys,subprocess
dst,prop,needs,caught=sys.argv[1:5]
base=subprocess.check_output(['git','-C','/repo','log','-1','--format=%h']).decode().strip()
json.dump({
 "breaks_property": prop,
 "origin": "written by a fresh sub-agent that saw only the property text and a scratch worktree of /repo (nothing from /verif)",
 "needs_to_manifest": needs,
 "confirmed": {"suite_passes_with_change": True, "demo_fails_with_change": True, "demo_passes_without_change": True,
               "how": "/verif/seedtest.sh <dir> <checks>: scratch worktree of /repo HEAD, git apply, go build + go test -vet=off -count=1 ./..., demo copied to the repository root as zz_seed_demo_test.go and run with and without the change"},
 "repo_commit_when_confirmed": base,
 "detected_by": caught,
}, open(dst+'/meta.json','w'), indent=1)
PY
echo archived $name
